import KafVerif.Model.ProduceGate
import KafVerif.Lemmas.Lease
/-!
C19 — a broker appends only to partitions whose lease it holds.

Statement (properties.jsonl): when partition leasing is active, a broker returns a success code
for a produce to partition p only if it held p's lease when it appended; otherwise the client gets
NOT_LEADER_OR_FOLLOWER (another owner) or a retriable error, and nothing is written.

What is proved (decision logic, for every input combination, plus the link to the lease model):
  * `produce_gate_partial`  — code 0 ⇒ the lease result was nil, i.e. the partition was in the
    broker's ownership set at the `AcquireAll` step (`lease_nil_means_owned`), and ACL / etcd / S3
    health / log / batch were all fine;
  * `foreign_rejected`      — NotOwner / ShuttingDown ⇒ nothing appended and the code is
    NOT_LEADER_OR_FOLLOWER (or the earlier ACL / etcd rejection);
  * `lease_error_retriable` — any other lease error ⇒ nothing appended, retriable code;
  * `no_write_without_gate` — whatever the inputs, a batch is appended only behind a nil lease result.
The FULL statement ("held the lease WHEN IT APPENDED") is about the interleaved system and is
FALSE for the code as it is: `append_without_lease` is the witness (kept as a theorem; the
concrete replay on the real handler is the known finding `lease-lost-between-acquire-and-append`).
-/
namespace KafVerif.ProduceGate

open KafVerif.Lease

/-- **gate (partial).** A success code implies every gate was passed, in particular the lease
result for the partition was nil. -/
theorem _root_.KafVerif.C19.produce_gate_partial (i : PartIn) (h : (producePart i).code = 0) :
    i.lease = .nil ∧ i.aclOk = true ∧ i.etcdUp = true ∧ i.s3 = .healthy ∧ i.logOk = true ∧ i.batchOk = true ∧
      i.appendOk = true ∧ (producePart i).appended = true := by
  obtain ⟨aclOk, etcdUp, lease, s3, logOk, batchOk, appendOk, flushOk, acks0, flushOnAck⟩ := i
  cases aclOk <;> (try (simp_all [producePart, backpressure]; done)) <;>
  cases etcdUp <;> (try (simp_all [producePart, backpressure]; done)) <;>
  cases lease <;> (try (simp_all [producePart, backpressure]; done)) <;>
  cases s3 <;> (try (simp_all [producePart, backpressure]; done)) <;>
  cases logOk <;> (try (simp_all [producePart, backpressure]; done)) <;>
  cases batchOk <;> (try (simp_all [producePart, backpressure]; done)) <;>
  cases appendOk <;> (try (simp_all [producePart, backpressure]; done)) <;>
  cases acks0 <;> (try (simp_all [producePart, backpressure]; done)) <;>
  cases flushOnAck <;> (try (simp_all [producePart, backpressure]; done)) <;>
  cases flushOk <;> simp_all [producePart, backpressure]

/-- **foreign partitions are rejected.** -/
theorem _root_.KafVerif.C19.foreign_rejected (i : PartIn) (h : i.lease = .notOwner ∨ i.lease = .shuttingDown) :
    (producePart i).appended = false ∧ (producePart i).flushed = false ∧
      ((producePart i).code = 6 ∨ (i.aclOk = false ∧ (producePart i).code = 29) ∨
        (i.aclOk = true ∧ i.etcdUp = false ∧ (producePart i).code = 7)) ∧
      (i.aclOk = true → i.etcdUp = true → (producePart i).code = 6) := by
  obtain ⟨aclOk, etcdUp, lease, s3, logOk, batchOk, appendOk, flushOk, acks0, flushOnAck⟩ := i
  cases aclOk <;> cases etcdUp <;> cases lease <;> simp_all [producePart]

/-- **other lease errors are retriable and write nothing.** -/
theorem _root_.KafVerif.C19.lease_error_retriable (i : PartIn) (h : i.lease = .other) :
    (producePart i).appended = false ∧ (producePart i).flushed = false ∧
      ((producePart i).code = 7 ∨ (i.aclOk = false ∧ (producePart i).code = 29)) := by
  obtain ⟨aclOk, etcdUp, lease, s3, logOk, batchOk, appendOk, flushOk, acks0, flushOnAck⟩ := i
  cases aclOk <;> cases etcdUp <;> cases lease <;> simp_all [producePart]

/-- **nothing is written unless the lease gate was passed** (any inputs). -/
theorem _root_.KafVerif.C19.no_write_without_gate (i : PartIn) (h : (producePart i).appended = true ∨ (producePart i).flushed = true) :
    i.lease = .nil ∧ i.aclOk = true ∧ i.etcdUp = true ∧ i.s3 = .healthy := by
  obtain ⟨aclOk, etcdUp, lease, s3, logOk, batchOk, appendOk, flushOk, acks0, flushOnAck⟩ := i
  cases aclOk <;> (try (simp_all [producePart, backpressure]; done)) <;>
  cases etcdUp <;> (try (simp_all [producePart, backpressure]; done)) <;>
  cases lease <;> (try (simp_all [producePart, backpressure]; done)) <;>
  cases s3 <;> (try (simp_all [producePart, backpressure]; done)) <;>
  cases logOk <;> (try (simp_all [producePart, backpressure]; done)) <;>
  cases batchOk <;> (try (simp_all [producePart, backpressure]; done)) <;>
  cases appendOk <;> (try (simp_all [producePart, backpressure]; done)) <;>
  cases acks0 <;> (try (simp_all [producePart, backpressure]; done)) <;>
  cases flushOnAck <;> (try (simp_all [producePart, backpressure]; done)) <;>
  cases flushOk <;> simp_all [producePart, backpressure]

/-- every non-zero code the gate can produce is one of the documented ones -/
theorem _root_.KafVerif.C19.codes_closed (i : PartIn) :
    (producePart i).code = 0 ∨ (producePart i).code = 6 ∨ (producePart i).code = 7 ∨
      (producePart i).code = 29 ∨ (producePart i).code = -1 := by
  obtain ⟨aclOk, etcdUp, lease, s3, logOk, batchOk, appendOk, flushOk, acks0, flushOnAck⟩ := i
  cases aclOk <;> (try (simp [producePart, backpressure]; done)) <;>
  cases etcdUp <;> (try (simp [producePart, backpressure]; done)) <;>
  cases lease <;> (try (simp [producePart, backpressure]; done)) <;>
  cases s3 <;> (try (simp [producePart, backpressure]; done)) <;>
  cases logOk <;> (try (simp [producePart, backpressure]; done)) <;>
  cases batchOk <;> (try (simp [producePart, backpressure]; done)) <;>
  cases appendOk <;> (try (simp [producePart, backpressure]; done)) <;>
  cases acks0 <;> (try (simp [producePart, backpressure]; done)) <;>
  cases flushOnAck <;> (try (simp [producePart, backpressure]; done)) <;>
  cases flushOk <;> simp [producePart, backpressure]

/-- **link to the lease model.** The lease result of a partition is nil only if a lease-manager
step returned `ok`, and at that step the partition is in the broker's ownership set — for every
state of the lease protocol, every variant. -/
theorem _root_.KafVerif.C19.lease_nil_means_owned (var : Variant) (s : Lease.State) (op : Lease.Op) (s' : Lease.State)
    (r : Option Res) (hstep : Lease.step var s op = (s', r)) (hnil : ofRes r = .nil) :
    ∃ b p, (op = .acquire b p ∨ op = .step b p) ∧ owns s' b p = true := by
  have hr : r = some .ok := by
    cases r with
    | none => simp [ofRes] at hnil
    | some x => cases x <;> simp_all [ofRes]
  subst hr
  exact step_ok_owns var s op s' hstep

/-- in the interleaved system the handler passes its lease step only while it owns the partition -/
theorem _root_.KafVerif.C19.gate_step_owned (y : Sys) (b r : Nat) (h : (sstep y (.gate b r)).passed b r = true)
    (h0 : y.passed b r = false) : owns y.l b r = true := by
  simp only [sstep] at h
  split at h
  · assumption
  · simp_all

/-- The full statement over the interleaved system: every append happened while the lease was held. -/
def AppendsHeld (y : Sys) : Prop := ∀ a ∈ y.appends, a.heldLocal = true ∧ a.heldEtcd = true

def fullAcquire (b r : Nat) : List SOp :=
  [.lease (.acquire b r), .lease (.step b r), .lease (.step b r), .lease (.step b r), .lease (.step b r), .lease (.step b r)]

/-- **the full statement is violated by the code as it is** (with the C18 fix in place): broker 0
passes the lease step for partition 0, loses its session, the lease expires, broker 1 acquires,
broker 0 appends and acknowledges: at that moment it neither believes it owns the partition nor is
it the owner in etcd. -/
theorem _root_.KafVerif.C19.append_without_lease :
    ¬ AppendsHeld (srun (fullAcquire 0 0 ++ [.gate 0 0, .lease (.sessionLost 0), .lease (.expire 0)] ++
        fullAcquire 1 0 ++ [.append 0 0])) := by
  intro h
  have := h ⟨0, 0, false, false⟩ (by decide)
  simp at this

/-! ### non-vacuity -/
example : (producePart ⟨true, true, .nil, .healthy, true, true, true, true, false, true⟩) = ⟨0, true, true⟩ := by decide
example : (producePart ⟨true, true, .notOwner, .healthy, true, true, true, true, false, true⟩).code = 6 := by decide
example : (producePart ⟨true, true, .other, .degraded, true, true, true, true, false, true⟩).code = 7 := by decide
example : (srun (fullAcquire 0 0 ++ [.gate 0 0, .append 0 0])).appends = [⟨0, 0, true, true⟩] := by decide

end KafVerif.ProduceGate
