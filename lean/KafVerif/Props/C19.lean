import KafVerif.Model.ProduceGate
import KafVerif.Lemmas.Lease
import KafVerif.Lemmas.LeaseAcquireAll
/-!
C19 — a broker appends only to partitions whose lease it holds.

Statement (properties.jsonl): when partition leasing is active, a broker returns a success code
for a produce to partition p only if it held p's lease when it appended; otherwise the client gets
NOT_LEADER_OR_FOLLOWER (another owner) or a retriable error, and nothing is written.

What is proved (decision logic, for every input combination, plus the link to the lease model):
  * `produce_gate_partial`  — code 0 ⇒ the lease result was nil, i.e. the partition was in the
    broker's ownership set at the `AcquireAll` step (`lease_nil_means_owned`), and ACL / etcd / S3
    health / log / batch were all fine;
  * `foreign_rejected`      — NotOwner / ShuttingDown ⇒ nothing appended and the code is
    NOT_LEADER_OR_FOLLOWER (or the earlier ACL / etcd rejection);
  * `lease_error_retriable` — any other lease error ⇒ nothing appended, retriable code;
  * `no_write_without_gate` — whatever the inputs, a batch is appended only behind a nil lease result.
The FULL statement ("held the lease WHEN IT APPENDED") is about the interleaved system and is
FALSE for the code as it is: `append_without_lease` is the witness (kept as a theorem; the
concrete replay on the real handler is the known finding `lease-lost-between-acquire-and-append`).
-/
namespace KafVerif.ProduceGate

open KafVerif.Lease

/-- **gate (partial).** A success code implies every gate was passed, in particular the lease
result for the partition was nil. -/
theorem _root_.KafVerif.C19.produce_gate_partial (i : PartIn) (h : (producePart i).code = 0) :
    i.lease = .nil ∧ i.aclOk = true ∧ i.etcdUp = true ∧ i.s3 = .healthy ∧ i.logOk = true ∧ i.batchOk = true ∧
      i.appendOk = true ∧ (producePart i).appended = true := by
  obtain ⟨aclOk, etcdUp, lease, s3, logOk, batchOk, appendOk, flushOk, acks0, flushOnAck⟩ := i
  cases aclOk <;> (try (simp_all [producePart, backpressure]; done)) <;>
  cases etcdUp <;> (try (simp_all [producePart, backpressure]; done)) <;>
  cases lease <;> (try (simp_all [producePart, backpressure]; done)) <;>
  cases s3 <;> (try (simp_all [producePart, backpressure]; done)) <;>
  cases logOk <;> (try (simp_all [producePart, backpressure]; done)) <;>
  cases batchOk <;> (try (simp_all [producePart, backpressure]; done)) <;>
  cases appendOk <;> (try (simp_all [producePart, backpressure]; done)) <;>
  cases acks0 <;> (try (simp_all [producePart, backpressure]; done)) <;>
  cases flushOnAck <;> (try (simp_all [producePart, backpressure]; done)) <;>
  cases flushOk <;> simp_all [producePart, backpressure]

/-- **foreign partitions are rejected.** -/
theorem _root_.KafVerif.C19.foreign_rejected (i : PartIn) (h : i.lease = .notOwner ∨ i.lease = .shuttingDown) :
    (producePart i).appended = false ∧ (producePart i).flushed = false ∧
      ((producePart i).code = 6 ∨ (i.aclOk = false ∧ (producePart i).code = 29) ∨
        (i.aclOk = true ∧ i.etcdUp = false ∧ (producePart i).code = 7)) ∧
      (i.aclOk = true → i.etcdUp = true → (producePart i).code = 6) := by
  obtain ⟨aclOk, etcdUp, lease, s3, logOk, batchOk, appendOk, flushOk, acks0, flushOnAck⟩ := i
  cases aclOk <;> cases etcdUp <;> cases lease <;> simp_all [producePart]

/-- **other lease errors are retriable and write nothing.** -/
theorem _root_.KafVerif.C19.lease_error_retriable (i : PartIn) (h : i.lease = .other) :
    (producePart i).appended = false ∧ (producePart i).flushed = false ∧
      ((producePart i).code = 7 ∨ (i.aclOk = false ∧ (producePart i).code = 29)) := by
  obtain ⟨aclOk, etcdUp, lease, s3, logOk, batchOk, appendOk, flushOk, acks0, flushOnAck⟩ := i
  cases aclOk <;> cases etcdUp <;> cases lease <;> simp_all [producePart]

/-- **nothing is written unless the lease gate was passed** (any inputs). -/
theorem _root_.KafVerif.C19.no_write_without_gate (i : PartIn) (h : (producePart i).appended = true ∨ (producePart i).flushed = true) :
    i.lease = .nil ∧ i.aclOk = true ∧ i.etcdUp = true ∧ i.s3 = .healthy := by
  obtain ⟨aclOk, etcdUp, lease, s3, logOk, batchOk, appendOk, flushOk, acks0, flushOnAck⟩ := i
  cases aclOk <;> (try (simp_all [producePart, backpressure]; done)) <;>
  cases etcdUp <;> (try (simp_all [producePart, backpressure]; done)) <;>
  cases lease <;> (try (simp_all [producePart, backpressure]; done)) <;>
  cases s3 <;> (try (simp_all [producePart, backpressure]; done)) <;>
  cases logOk <;> (try (simp_all [producePart, backpressure]; done)) <;>
  cases batchOk <;> (try (simp_all [producePart, backpressure]; done)) <;>
  cases appendOk <;> (try (simp_all [producePart, backpressure]; done)) <;>
  cases acks0 <;> (try (simp_all [producePart, backpressure]; done)) <;>
  cases flushOnAck <;> (try (simp_all [producePart, backpressure]; done)) <;>
  cases flushOk <;> simp_all [producePart, backpressure]

/-- every non-zero code the gate can produce is one of the documented ones -/
theorem _root_.KafVerif.C19.codes_closed (i : PartIn) :
    (producePart i).code = 0 ∨ (producePart i).code = 6 ∨ (producePart i).code = 7 ∨
      (producePart i).code = 29 ∨ (producePart i).code = -1 := by
  obtain ⟨aclOk, etcdUp, lease, s3, logOk, batchOk, appendOk, flushOk, acks0, flushOnAck⟩ := i
  cases aclOk <;> (try (simp [producePart, backpressure]; done)) <;>
  cases etcdUp <;> (try (simp [producePart, backpressure]; done)) <;>
  cases lease <;> (try (simp [producePart, backpressure]; done)) <;>
  cases s3 <;> (try (simp [producePart, backpressure]; done)) <;>
  cases logOk <;> (try (simp [producePart, backpressure]; done)) <;>
  cases batchOk <;> (try (simp [producePart, backpressure]; done)) <;>
  cases appendOk <;> (try (simp [producePart, backpressure]; done)) <;>
  cases acks0 <;> (try (simp [producePart, backpressure]; done)) <;>
  cases flushOnAck <;> (try (simp [producePart, backpressure]; done)) <;>
  cases flushOk <;> simp [producePart, backpressure]

/-- **link to the lease model.** The lease result of a partition is nil only if a lease-manager
step returned `ok`, and at that step the partition is in the broker's ownership set — for every
state of the lease protocol, every variant. -/
theorem _root_.KafVerif.C19.lease_nil_means_owned (var : Variant) (s : Lease.State) (op : Lease.Op) (s' : Lease.State)
    (r : Option Res) (hstep : Lease.step var s op = (s', r)) (hnil : ofRes r = .nil) :
    ∃ b p, (op = .acquire b p ∨ op = .step b p) ∧ owns s' b p = true := by
  have hr : r = some .ok := by
    cases r with
    | none => simp [ofRes] at hnil
    | some x => cases x <;> simp_all [ofRes]
  subst hr
  exact step_ok_owns var s op s' hstep

/-- **AcquireAll covers every requested partition**: the result list has exactly one entry per
requested partition, in request order — no partition is left without a lease result (a cap on the
fan-out that silently drops the overflow would break exactly this). -/
theorem _root_.KafVerif.C19.acquireAll_covers_every_partition (b : Nat) (fail : Bool) (cancel : Nat → Option Nat)
    (l : Lease.State) (ps : List Nat) : (acquireAll b fail cancel l ps).2.map (·.1) = ps := by
  induction ps generalizing l with
  | nil => simp [acquireAll]
  | cons p ps ih =>
    simp only [acquireAll]
    split <;> simp [ih]

/-- … and every nil result reflects an actual attempt: the partition was found in the ownership set
or an `Acquire` call for it returned nil, and it is (still) owned when `AcquireAll` returns. -/
theorem _root_.KafVerif.C19.acquireAll_nil_owned (b : Nat) (fail : Bool) (cancel : Nat → Option Nat) (l : Lease.State)
    (ps : List Nat) (p : Nat) (h : (p, LeaseRes.nil) ∈ (acquireAll b fail cancel l ps).2) :
    owns (acquireAll b fail cancel l ps).1 b p = true := by
  induction ps generalizing l with
  | nil => simp [acquireAll] at h
  | cons q ps ih =>
    simp only [acquireAll] at h ⊢
    split at h
    · rename_i ho
      simp only [ho, if_true]
      simp only [List.mem_cons, Prod.mk.injEq, and_true] at h
      rcases h with rfl | h
      · exact acquireAll_mono b fail cancel l ps b p ho
      · exact ih l h
    · rename_i ho
      simp only [ho, Bool.false_eq_true, if_false]
      simp only [List.mem_cons, Prod.mk.injEq] at h
      rcases h with ⟨rfl, hr⟩ | h
      · have hok := ofRes_nil hr.symm
        exact acquireAll_mono b fail cancel _ ps b p ((acquireOne_spec l b p fail (cancel p)).2 hok)
      · exact ih _ h

/-- **every result slot is written from an actual attempt** (the model side of the static obligation
`acquireAll_no_zero_value_result`): each entry of the result list is either "found owned, nil" or the translated return value of
the `Acquire` call made for that partition (with the request's cancellation) — there is no third way for a slot to be nil. -/
theorem _root_.KafVerif.C19.acquireAll_slot_from_acquire (b : Nat) (fail : Bool) (cancel : Nat → Option Nat) (l : Lease.State)
    (ps : List Nat) :
    ∀ x ∈ (acquireAll b fail cancel l ps).2, ∃ l', (owns l' b x.1 = true ∧ x.2 = .nil) ∨
      (owns l' b x.1 = false ∧ x.2 = ofRes (acquireOne l' b x.1 fail (cancel x.1)).2) := by
  induction ps generalizing l with
  | nil => simp [acquireAll]
  | cons q ps ih =>
    intro x hx
    simp only [acquireAll] at hx
    split at hx
    · rename_i ho
      simp only [List.mem_cons] at hx
      rcases hx with rfl | hx
      · exact ⟨l, Or.inl ⟨ho, rfl⟩⟩
      · exact ih l x hx
    · rename_i ho
      simp only [List.mem_cons] at hx
      rcases hx with rfl | hx
      · exact ⟨l, Or.inr ⟨by simpa using ho, rfl⟩⟩
      · exact ih _ x hx

/-- **a cancelled Acquire yields an ERROR result, never nil**: when ctx is done before the Acquire of a partition the
broker does not own has made a single step, its result is the context error (or ShuttingDown from the entry check). -/
theorem _root_.KafVerif.C19.cancelled_acquire_is_error (l : Lease.State) (b r : Nat) (fail : Bool) (hno : owns l b r = false) :
    ofRes (acquireOne l b r fail (some 0)).2 = .other ∨ ofRes (acquireOne l b r fail (some 0)).2 = .shuttingDown := by
  simp only [owns, Option.isSome_eq_false_iff, Option.isNone_iff_eq_none] at hno
  simp only [acquireOne, runAcquireCancel, Lease.step, hno, Option.isSome_none, Bool.false_eq_true, if_false]
  by_cases hc : (l.mgr b).closed = true
  · simp [hc, ofRes]
  · by_cases ha : (l.acq b r).isSome = true
    · simp [hc, ha, cancelAcquire, ofRes]
    · simp [hc, ha, cancelAcquire, ofRes]

/-- … and however late ctx fires (`k` steps), a nil result still means the partition is owned when the call returns -/
theorem _root_.KafVerif.C19.cancelled_acquire_nil_owned (l : Lease.State) (b r : Nat) (fail : Bool) (k : Nat)
    (h : ofRes (acquireOne l b r fail (some k)).2 = .nil) : owns (acquireOne l b r fail (some k)).1 b r = true :=
  (acquireOne_spec l b r fail (some k)).2 (ofRes_nil h)

theorem leaseOf_mem (results : List (Nat × LeaseRes)) (p : Nat) (hp : p ∈ results.map (·.1)) :
    (p, leaseOf results p) ∈ results := by
  unfold leaseOf
  cases hf : results.find? (fun x => x.1 == p) with
  | none =>
    have := List.find?_eq_none.mp hf
    obtain ⟨x, hx, rfl⟩ := List.mem_map.mp hp
    exact absurd (by simp) (this x hx)
  | some x =>
    have hm := List.mem_of_find?_eq_some hf
    have hx : x.1 = p := by simpa using List.find?_some hf
    simp only
    rw [← hx]
    exact hm

/-- **the gate of a whole produce request** (depends on `acquireAll_covers_every_partition`): for
every requested partition, a success code means the partition is in the broker's ownership set when
`acquirePartitionLeases` returns — whatever the rest of the request looks like, however many
partitions it has. -/
theorem _root_.KafVerif.C19.produce_request_gate (b : Nat) (fail : Bool) (cancel : Nat → Option Nat) (env : Nat → PartIn)
    (l : Lease.State) (parts : List Nat)
    (p : Nat) (out : PartOut) (hmem : (p, out) ∈ (produceRequest b fail cancel env l parts).2) (hcode : out.code = 0) :
    owns (produceRequest b fail cancel env l parts).1 b p = true := by
  simp only [produceRequest, List.mem_map, Prod.mk.injEq] at hmem
  obtain ⟨q, hq, rfl, rfl⟩ := hmem
  have hnil := (KafVerif.C19.produce_gate_partial _ hcode).1
  simp only at hnil
  have hcov := KafVerif.C19.acquireAll_covers_every_partition b fail cancel l parts
  have := leaseOf_mem (acquireAll b fail cancel l parts).2 q (by rw [hcov]; exact hq)
  rw [hnil] at this
  exact KafVerif.C19.acquireAll_nil_owned b fail cancel l parts q this

/-- and nothing is appended for a partition whose lease attempt failed -/
theorem _root_.KafVerif.C19.produce_request_no_write (b : Nat) (fail : Bool) (cancel : Nat → Option Nat) (env : Nat → PartIn)
    (l : Lease.State) (parts : List Nat)
    (p : Nat) (out : PartOut) (hmem : (p, out) ∈ (produceRequest b fail cancel env l parts).2)
    (hw : out.appended = true ∨ out.flushed = true) :
    owns (produceRequest b fail cancel env l parts).1 b p = true := by
  simp only [produceRequest, List.mem_map, Prod.mk.injEq] at hmem
  obtain ⟨q, hq, rfl, rfl⟩ := hmem
  have hnil := (KafVerif.C19.no_write_without_gate _ hw).1
  simp only at hnil
  have hcov := KafVerif.C19.acquireAll_covers_every_partition b fail cancel l parts
  have := leaseOf_mem (acquireAll b fail cancel l parts).2 q (by rw [hcov]; exact hq)
  rw [hnil] at this
  exact KafVerif.C19.acquireAll_nil_owned b fail cancel l parts q this

/-- in the interleaved system the handler passes its lease step only while it owns the partition -/
theorem _root_.KafVerif.C19.gate_step_owned (y : Sys) (b r : Nat) (h : (sstep y (.gate b r)).passed b r = true)
    (h0 : y.passed b r = false) : owns y.l b r = true := by
  simp only [sstep] at h
  split at h
  · assumption
  · simp_all

/-- The full statement over the interleaved system: every append happened while the lease was held. -/
def AppendsHeld (y : Sys) : Prop := ∀ a ∈ y.appends, a.heldLocal = true ∧ a.heldEtcd = true

def fullAcquire (b r : Nat) : List SOp :=
  [.lease (.acquire b r), .lease (.step b r), .lease (.step b r), .lease (.step b r), .lease (.step b r), .lease (.step b r)]

/-- **the full statement is violated by the code as it is** (with the C18 fix in place): broker 0
passes the lease step for partition 0, loses its session, the lease expires, broker 1 acquires,
broker 0 appends and acknowledges: at that moment it neither believes it owns the partition nor is
it the owner in etcd. -/
theorem _root_.KafVerif.C19.append_without_lease :
    ¬ AppendsHeld (srun (fullAcquire 0 0 ++ [.gate 0 0, .lease (.sessionLost 0), .lease (.expire 0)] ++
        fullAcquire 1 0 ++ [.append 0 0])) := by
  intro h
  have := h ⟨0, 0, false, false⟩ (by decide)
  simp at this

/-! ### non-vacuity -/
example : (producePart ⟨true, true, .nil, .healthy, true, true, true, true, false, true⟩) = ⟨0, true, true⟩ := by decide
example : (producePart ⟨true, true, .notOwner, .healthy, true, true, true, true, false, true⟩).code = 6 := by decide
example : (producePart ⟨true, true, .other, .degraded, true, true, true, true, false, true⟩).code = 7 := by decide
example : (srun (fullAcquire 0 0 ++ [.gate 0 0, .append 0 0])).appends = [⟨0, 0, true, true⟩] := by decide
-- cancellation: ctx done at once -> error and nothing owned; ctx done after the Acquire finished -> nil and owned
example : (acquireAll 0 false (fun _ => some 0) Lease.init [3]).2 = [(3, .other)] ∧
    owns (acquireAll 0 false (fun _ => some 0) Lease.init [3]).1 0 3 = false := by decide
example : (acquireAll 0 false (fun _ => some 9) Lease.init [3]).2 = [(3, .nil)] ∧
    owns (acquireAll 0 false (fun _ => some 9) Lease.init [3]).1 0 3 = true := by decide
-- ctx done after the create transaction but before the guarded insert: the key is in etcd, the result is still an error
example : (acquireAll 0 false (fun _ => some 4) Lease.init [3]).2 = [(3, .other)] ∧
    etcdOwner (acquireAll 0 false (fun _ => some 4) Lease.init [3]).1 3 = some 0 := by decide

end KafVerif.ProduceGate
