import KafVerif.Lemmas.PLogReadFallback
import KafVerif.Lemmas.PLogReadSegment
import KafVerif.Lemmas.PLogReadWhole
import KafVerif.Lemmas.PLogReadReach
import KafVerif.Lemmas.PLogLoss
import KafVerif.Model.PLogHandout
/-!
C03 — Fetch returns exactly the acknowledged bytes, in order.

Statement (properties.jsonl): a fetch for partition p at offset o returns batches that match the
acknowledged batches byte for byte (apart from the assigned base offset); the bytes are a
contiguous run of p's log that starts at a batch boundary at or before the batch holding o; a
fetch never returns another partition's data or bytes that no producer appended.

The stored log of a partition is `l.log` = segment batches ++ in-flight flush batches ++ buffered
batches, a *chain* in every reachable state (C02 `offsets_chain`).  `runFrom bs o` is the suffix of a
batch list that starts at the batch holding `o` (or the first batch after `o`).

* `recordsFrom_run`   `recordsFromBatches` on a chain returns the bytes of a non-empty prefix of `runFrom`.
* `fallback_run`      the `!found` branch of `Read` (flush window, then buffer) returns the bytes of
                      ≥ 1 whole batches starting exactly at the batch holding `o`, or offset-out-of-range
                      when no batch reaches `o` — for every chain split into in-flight and buffered part.
* `segment_read_run`  a read served from a committed segment — the cached / full-download path
                      (`sliceCachedSegment`) — returns `take n` of the segment's batch bytes starting exactly at
                      the batch holding `o`, `n ≥ 1`; never header or footer bytes.
* `range_read_eq_slice` the range-read path returns the same bytes as the cached path (path independence),
                      so the statement above holds with and without the cache.
* `read_run`          `PartitionLog.Read` as a whole: for a log whose segments satisfy the segment invariant,
                      every answer is `.data` of a non-empty prefix of `body (runFrom l.log o')` where `o'` is
                      `o` or the snapped offset; i.e. a contiguous run of this partition's acknowledged bytes.
* `read_run_reachable` the same for EVERY reachable state: every configuration and operation sequence whose accepted record
                      sets declare their length (run `Small`: offsets in int64, segments < 2 GiB) — `SegBuilt`/`Coherent`
                      are proved invariants (`Lemmas/PLogReadReach.lean`), nothing is assumed about the state.
* `read_run_gapped`   `read_run` for a segment list WITH HOLES (`SegGap`: every segment starts at or after the end of the one
                      before; the in-flight/buffered tail starts at or after the last segment): same conclusion.
* `read_run_after_loss` any reachable state, then ANY set of index objects / segment objects lost and a restart at any store
                      offset (orphan rule of `RestoreFromS3`): if the restore succeeds, `Read` on the restored log answers a
                      non-empty prefix of the retained log from the first batch reaching the offset — also inside a hole.
* `read_run_after_loss_run` … and after any further appends / flushes / gated flushes / reads on the restored log (up to the next restart).
* `handouts_stable`   returned record sets modelled in a heap of hand-outs (`Model/PLogHandout.lean`): with the fresh-copy read path
                      every slice ever handed out keeps its bytes under every later operation; `shared_buffer_unstable` is the
                      witness for a reused per-partition buffer (seeded change C04-r2-2).
* `readOld_skips_flush_window`  the code before the fix: with batch A in flight and batch B buffered,
                      `Read(A.base)` returns B's bytes only.
-/
namespace KafVerif.PLog
open KafVerif KafVerif.RecBatch

/-- **C03 (buffer / flush-window batches).** -/
theorem _root_.KafVerif.C03.recordsFrom_run {s e : Int} {bs : List Batch} (h : Chain s bs e) (o m : Int) :
    ∃ k, recordsFrom bs o m = body ((runFrom bs o).take k) ∧ k ≤ (runFrom bs o).length ∧
      (runFrom bs o ≠ [] → 1 ≤ k) :=
  recordsFrom_chain h o m

/-- **C03 (`!found` branch of `Read`).** For every chain `fl ++ buf` of non-empty batches, every offset
and byte limit: the answer is offset-out-of-range exactly when no batch reaches `o`; otherwise it is
the bytes of `k ≥ 1` whole consecutive batches starting at the batch holding `o`. -/
theorem _root_.KafVerif.C03.fallback_run {s e : Int} {fl buf : List Batch} (h : Chain s (fl ++ buf) e)
    (hb : ∀ b ∈ fl ++ buf, b.bytes ≠ []) (o m : Int) :
    (runFrom (fl ++ buf) o = [] → fallback fl buf o m = .oor) ∧
    (runFrom (fl ++ buf) o ≠ [] →
      ∃ k, 1 ≤ k ∧ fallback fl buf o m = .data (body ((runFrom (fl ++ buf) o).take k))) :=
  fallback_chain h hb o m

/-! ### the code before the C03 fix -/

def wA : Batch := ⟨0, 0, 1, [0, 0, 0, 0, 0, 0, 0, 0, 0xA]⟩
def wB : Batch := ⟨1, 0, 1, [0, 0, 0, 0, 0, 0, 0, 1, 0xB]⟩

/-- **Pre-fix witness.** Batch A (offset 0) is in flight, batch B (offset 1) was appended
meanwhile: a read at offset 0 answers B's bytes — the run starts *after* the batch holding the
offset.  The fixed `fallback` answers A's bytes. -/
theorem _root_.KafVerif.C03.readOld_skips_flush_window :
    Chain 0 ([wA] ++ [wB]) 2 ∧ fallbackOld [wA] [wB] 0 1000 = .data wB.bytes ∧
    fallback [wA] [wB] 0 1000 = .data wA.bytes := by
  refine ⟨by simp [Chain, wA, wB], by decide, by decide⟩

/-! ### committed segments -/

/-- **C03 (segment read, cached and full-download path).** Let a segment be built by `BuildSegment`
(any index interval) from a non-empty chain of framed batches whose header bytes agree with their
fields, small enough for int32 positions.  For every offset inside the segment and every byte
limit, `sliceCachedSegment` on the segment's bytes returns exactly
`take n (bytes of the batches from the one holding o onwards)` with `n ≥ 1` — a contiguous run of the
log that starts at the batch holding `o` and contains no header or footer byte. -/
theorem _root_.KafVerif.C03.segment_read_run {s e : Int} {bs : List Batch} (iv : Int)
    (hne : bs ≠ []) (hc : Chain s bs e) (hfr : ∀ b ∈ bs, Framed b ∧ HdrOK b)
    (hsmall : (body bs).length + 48 < 2147483648) (o m : Int) (ho1 : s ≤ o) (ho2 : o < e) :
    ∃ n, 1 ≤ n ∧
      sliceCached (buildSegment iv bs).size (buildSegment iv bs).entries o m (buildSegment iv bs).data =
        .data ((body (runFrom bs o)).take n) ∧
      n ≤ (body (runFrom bs o)).length ∧
      (n = (body (runFrom bs o)).length ∨ (0 < m ∧ (n : Int) = m)) :=
  sliceCached_segment iv hne hc hfr hsmall o m ho1 ho2

/-- **C03 (range-read path = cached path).** Under the same hypotheses, when `segmentRangeForOffset`
allows a range read, the bytes the (in-memory) S3 client returns for that range are exactly what
`sliceCachedSegment` returns on the whole object. -/
theorem _root_.KafVerif.C03.range_read_eq_slice {s e : Int} {bs : List Batch} (iv : Int)
    (hne : bs ≠ []) (hc : Chain s bs e) (hfr : ∀ b ∈ bs, Framed b ∧ HdrOK b)
    (hsmall : (body bs).length + 48 < 2147483648) (o m : Int) (ho1 : s ≤ o) (ho2 : o < e)
    (st en : Int)
    (hr : segmentRangeFor (buildSegment iv bs).size (buildSegment iv bs).entries o m = some (st, en)) :
    (match s3Range (buildSegment iv bs).data st en with | some b => ReadOut.data b | none => ReadOut.err) =
      sliceCached (buildSegment iv bs).size (buildSegment iv bs).entries o m (buildSegment iv bs).data :=
  range_eq_sliceCached iv hne hc hfr hsmall o m ho1 ho2 st en hr

/-! ### `PartitionLog.Read` as a whole -/

/-- **C03 (main).** Let a partition log satisfy the C02 invariant (consecutive segments, then the
in-flight and buffered batches, as one chain up to `nextOffset`), let every committed segment be as
`BuildSegment` built it from framed batches (`SegBuilt`), and let cache and S3 hold those segment bytes
(`Coherent`: C09 + segment keys written once).  Then for EVERY offset and byte limit, with or without
the cache, on the range-read, full-download, cached, flush-window and buffer paths:

* if no batch of the log reaches `o`, `Read` answers offset-out-of-range;
* otherwise it answers a non-empty byte string that is a prefix of the concatenated bytes of the
  log's batches starting exactly at the batch holding `o` (the first batch after `o` when `o` lies before
  the log) — a contiguous run of acknowledged bytes of this partition, in order, nothing else. -/
theorem _root_.KafVerif.C03.read_run {start : Int} {l : PLog} (m0 : Int) (hseg : SegChain start l.segs m0)
    (htail : Chain m0 (l.fl ++ l.buf) l.next) (hbuilt : ∀ g ∈ l.segs, SegBuilt l.interval g)
    (hcoh : Coherent l) (hne : ∀ b ∈ l.fl ++ l.buf, b.bytes ≠ []) (o m : Int) :
    (runFrom l.log o = [] → (read l o m).2 = .oor) ∧
    (runFrom l.log o ≠ [] → ∃ d, (read l o m).2 = .data d ∧ d ≠ [] ∧ d <+: body (runFrom l.log o)) := by
  have : l.log = segBatches l.segs ++ (l.fl ++ l.buf) := by simp [PLog.log]
  rw [this]
  exact read_good m0 hseg htail hbuilt hcoh hne o m

/-- **C03 (main, closed over reachability).** For every index interval, cache setting, start offset and EVERY
operation sequence (append of arbitrary client bytes, flush, gated flush, release, restart, restart with a stale
store offset, read, dropcache) in which the appended record sets declare their batch length and the run stays
`Small` (offsets inside int64, no 2 GiB segment): in the reached state, for every offset and byte limit, `Read`
answers offset-out-of-range iff no batch of the log reaches the offset, and otherwise a non-empty prefix of the
log's bytes starting exactly at the batch holding the offset.  (`SegBuilt`, `Coherent` and the C02 chain are
established by `good_reach` / `inv_reach`; nothing is assumed about the reached state.) -/
theorem _root_.KafVerif.C03.read_run_reachable (iv : Int) (c : Bool) (start : Int) (ops : List Op)
    (hr : RunOK (PLog.new iv c start) ops) (o m : Int) :
    let l := ops.foldl step (PLog.new iv c start)
    (runFrom l.log o = [] → (read l o m).2 = .oor) ∧
    (runFrom l.log o ≠ [] → ∃ d, (read l o m).2 = .data d ∧ d ≠ [] ∧ d <+: body (runFrom l.log o)) := by
  intro l
  obtain ⟨hi, hg, _⟩ := good_reach (PLog.new iv c start) ops (inv_new iv c start) (good_new iv c start) hr
  obtain ⟨m0, h1, h2, _⟩ := hi
  obtain ⟨g1, g2, g3, _⟩ := hg
  exact KafVerif.C03.read_run m0 h1 h2 g1 g2 (fun b hb => by
    have := (g3 b hb).1.2
    intro hnil; rw [hnil] at this; simp [hdrMin] at this) o m

/-- **C03 (log with holes).** `read_run` with `SegGap` in place of `SegChain`: the restored segment list may have holes
(orphaned segment skipped by `RestoreFromS3`, deleted objects) and the tail may start after the last segment. -/
theorem _root_.KafVerif.C03.read_run_gapped {start : Int} {l : PLog} (m0 : Int) (hseg : SegGap start l.segs m0)
    (htail : Chain m0 (l.fl ++ l.buf) l.next) (hbuilt : ∀ g ∈ l.segs, SegBuilt l.interval g)
    (hcoh : Coherent l) (hne : ∀ b ∈ l.fl ++ l.buf, b.bytes ≠ []) (o m : Int) :
    (runFrom l.log o = [] → (read l o m).2 = .oor) ∧
    (runFrom l.log o ≠ [] → ∃ d, (read l o m).2 = .data d ∧ d ≠ [] ∧ d <+: body (runFrom l.log o)) := by
  have : l.log = segBatches l.segs ++ (l.fl ++ l.buf) := by simp [PLog.log]
  rw [this]
  exact read_gapped m0 hseg htail hbuilt hcoh hne o m

/-- **C03 (after object loss).** Every reachable state (`RunOK` history), then ANY list of lost objects (index object of a
segment deleted / corrupt, segment object deleted) and a restart at ANY store offset `st ≥ start`: if `RestoreFromS3` succeeds
(no index-less segment below `st`), then for every offset and byte limit `Read` on the restored log answers
offset-out-of-range iff no retained batch reaches the offset, and otherwise a non-empty prefix of the retained log's bytes
starting exactly at the first retained batch that reaches the offset (the batch holding it, or the first batch after the
hole it falls into). -/
theorem _root_.KafVerif.C03.read_run_after_loss (iv : Int) (c : Bool) (start : Int) (ops : List Op)
    (hr : RunOK (PLog.new iv c start) ops) (losses : List Loss) (st last : Int) (hst : start ≤ st)
    (hres : (restoreAt (losses.foldl lose { l := ops.foldl step (PLog.new iv c start) }) st).2 = .ok last) (o m : Int) :
    let l' := (restoreAt (losses.foldl lose { l := ops.foldl step (PLog.new iv c start) }) st).1.l
    (runFrom l'.log o = [] → (read l' o m).2 = .oor) ∧
    (runFrom l'.log o ≠ [] → ∃ d, (read l' o m).2 = .data d ∧ d ≠ [] ∧ d <+: body (runFrom l'.log o)) := by
  intro l'
  obtain ⟨hi, hg, _⟩ := good_reach (PLog.new iv c start) ops (inv_new iv c start) (good_new iv c start) hr
  obtain ⟨r1, r2, r3, r4, r5, _⟩ := restore_gapped hi hg losses st last hst hres
  exact KafVerif.C03.read_run_gapped l'.next r1 (by show Chain l'.next (l'.fl ++ l'.buf) l'.next; rw [r2, r3]; simp [Chain]) r4 r5
    (by intro b hb; rw [r2, r3] at hb; simp at hb) o m

/-- **C03 (after object loss, and everything up to the next restart).** As `read_run_after_loss`, followed by ANY sequence `ops2`
of appends (declared length), flushes, gated flushes, releases, reads and cache drops on the restored log (run `Small`, no further
restart): in the state reached, `Read` still answers offset-out-of-range iff no batch of the log reaches the offset and otherwise a
non-empty prefix of the log's bytes from the first batch that reaches it — the gapped invariants `InvG` / `GoodG` are inductive
(`gapped_step`).  A second loss + restart is outside this theorem (covered by the holes stream). -/
theorem _root_.KafVerif.C03.read_run_after_loss_run (iv : Int) (c : Bool) (start : Int) (ops : List Op)
    (hr : RunOK (PLog.new iv c start) ops) (losses : List Loss) (st last : Int) (hst : start ≤ st)
    (hres : (restoreAt (losses.foldl lose { l := ops.foldl step (PLog.new iv c start) }) st).2 = .ok last)
    (ops2 : List Op)
    (hr2 : RunOKG (restoreAt (losses.foldl lose { l := ops.foldl step (PLog.new iv c start) }) st).1.l ops2) (o m : Int) :
    let l' := ops2.foldl step (restoreAt (losses.foldl lose { l := ops.foldl step (PLog.new iv c start) }) st).1.l
    (runFrom l'.log o = [] → (read l' o m).2 = .oor) ∧
    (runFrom l'.log o ≠ [] → ∃ d, (read l' o m).2 = .data d ∧ d ≠ [] ∧ d <+: body (runFrom l'.log o)) := by
  intro l'
  obtain ⟨hi, hg, _⟩ := good_reach (PLog.new iv c start) ops (inv_new iv c start) (good_new iv c start) hr
  obtain ⟨i0, g0⟩ := restore_invG hi hg (cacheOff_reach iv c start ops) losses st last hst hres
  obtain ⟨⟨m0, h1, h2, _⟩, g1, g2, g3, _⟩ := gapped_reach _ ops2 i0 g0 hr2
  exact KafVerif.C03.read_run_gapped m0 h1 h2 g1 g2 (fun b hb => by
    have := (g3 b hb).1.2
    intro hnil; rw [hnil] at this; simp [hdrMin] at this) o m

/-- a read changes nothing but the cache, and what it caches is the S3 object of a segment -/
theorem _root_.KafVerif.C03.read_only_caches (l : PLog) (o m : Int) :
    (read l o m).1.segs = l.segs ∧ (read l o m).1.buf = l.buf ∧ (read l o m).1.fl = l.fl ∧
    (read l o m).1.next = l.next ∧ (read l o m).1.s3 = l.s3 ∧ (read l o m).1.hw = l.hw := by
  obtain ⟨e1, e2, e3, e4, e5, _, e7, _⟩ := read_frame l o m
  exact ⟨e1, e2, e3, e4, e5, e7⟩

/-! ### returned record sets are never written to again -/

/-- **C03/C04 (hand-out stability).** In the heap model of returned buffers, with the fresh-copy read path (`append([]byte(nil), …)`
in `sliceCachedSegment`, `recordsFromBatches`, the S3 client's copy): after ANY sequence of operations, every slice `Read` ever
handed out still holds exactly the bytes it was returned with. -/
theorem _root_.KafVerif.C03.handouts_stable (l : PLog) (ops : List Op) :
    ∀ h ∈ (Handout.run .fresh ⟨l, [], []⟩ ops).outs, (Handout.run .fresh ⟨l, [], []⟩ ops).heap.getD h.1 [] = h.2 :=
  Handout.fresh_stable l ops

/-- **Witness (seeded change C04-r2-2).** With one reused buffer per partition the bytes handed to the first fetch change when a
second fetch on the partition is served. -/
theorem _root_.KafVerif.C03.shared_buffer_unstable :
    ∃ (l : PLog) (ops : List Op), ∃ h ∈ (Handout.run .shared ⟨l, [], []⟩ ops).outs,
      (Handout.run .shared ⟨l, [], []⟩ ops).heap.getD h.1 [] ≠ h.2 :=
  Handout.shared_unstable

end KafVerif.PLog
