import KafVerif.Model.SqlFilter
/-!
C36 — SQL results equal direct filtering of the topic's records.

Statement (properties.jsonl): a single-topic SELECT returns exactly the rows obtained by
applying its partition, offset and time filters (and limit/tail/ordering) directly to all
records of the topic's completed segments; skipping segments based on offset and time
statistics never drops a matching row.  Quantifier: every set of segments (statistics present
or absent) and every filter combination.

* `skip_sound` — a segment with sound statistics that `filterSegments` drops holds no record
  that satisfies the query's filters.
* `select_eq_direct` (full strength) — for EVERY segment list with sound statistics (any of the
  four statistics present or absent, per segment) and EVERY query (partition / offset / time
  filters, LIMIT with early stop, TAIL ring, ORDER BY `_ts` ASC/DESC with cut), the rows the
  record loop of `handleSelect` sends are exactly `direct q segs`.
* `discovery_offsets_sound`, `scan_sound` — the statistics `ListCompleted` derives from the
  listing (`MinOffset = base`, `MaxOffset = next base − 1`) are sound when each segment's
  offsets lie in `[base, next base)`, and the footer `scanSegment` computes is sound for the
  records it scanned.
* `overlap_unsound` — with overlapping offset ranges across segments (what C02's defect can
  produce) the derived `MaxOffset` is wrong and a matching row is dropped (cross reference).
* faults (`selectF`: listing error, context cancellation / `Decode` error per listing position):
  `selectF_ok_eq_select`, `select_ok_eq_direct` (a query that completes under ANY fault oracle
  returns exactly the direct result), `selectF_clean` (faults off the candidate set do not fail
  the query), `selectF_err_of_candidate_fault` (ORDER BY / TAIL: a fault on any candidate fails
  the query), `cached_ok_eq_direct` (histories through `handleSelectWithCache`: a faulted query
  never poisons a later one), `select_ok_over_listing`; `listing_sound_faults` /
  `select_ok_over_faulted_listing` — the same with any per-object failure of the `.kfst` read.
-/
namespace KafVerif.SqlFilter

/-! ### skipping by statistics -/

theorem segmentMatches_false {smin smax qmin qmax : Option Int} (h : segmentMatches smin smax qmin qmax = false) :
    (∃ mn sM, qmin = some mn ∧ smax = some sM ∧ sM < mn) ∨ (∃ mx sm, qmax = some mx ∧ smin = some sm ∧ sm > mx) := by
  cases qmin <;> cases qmax <;> cases smin <;> cases smax <;>
    simp [segmentMatches] at h ⊢ <;> first | exact h | omega

/-- **C36 (skip).** If a segment of the query's topic with sound statistics is not selected,
none of its records satisfies the query's filters. -/
theorem _root_.KafVerif.C36.skip_sound (q : Query) (s : SegRef) (hs : StatsSound s) (hp : PartitionSound s)
    (htopic : s.topic = q.topic) (hsel : segmentSelected q s = false) :
    ∀ r ∈ s.recs, recordPred q r = false := by
  intro r hr
  obtain ⟨h1, h2, h3, h4⟩ := hs r hr
  have hpart := hp r hr
  unfold segmentSelected at hsel
  simp only [htopic, beq_self_eq_true, Bool.true_and, Bool.and_eq_false_iff] at hsel
  unfold recordPred recordPasses
  rcases hsel with (hsel | hsel) | hsel
  · -- partition filter
    split at hsel
    · rename_i p hq
      simp only [hq, hpart]
      simp only [beq_eq_false_iff_ne, ne_eq] at hsel
      simp [hsel]
    · simp at hsel
  · rcases segmentMatches_false hsel with ⟨mn, sM, hq, hsM, hlt⟩ | ⟨mx, sm, hq, hsm, hgt⟩
    · have := h2 sM hsM
      have hlt' : r.offset < mn := by omega
      simp [hq, hlt']
    · have := h1 sm hsm
      have hgt' : r.offset > mx := by omega
      simp [hq, hgt']
  · rcases segmentMatches_false hsel with ⟨mn, sM, hq, hsM, hlt⟩ | ⟨mx, sm, hq, hsm, hgt⟩
    · have := h4 sM hsM
      have hlt' : r.ts < mn := by omega
      simp [hq, hlt']
    · have := h3 sm hsm
      have hgt' : r.ts > mx := by omega
      simp [hq, hgt']

/-- the records that pass the loop's filters in the selected segments are exactly the topic's
records that satisfy the query's filters -/
theorem passed_eq (q : Query) (segs : List SegRef)
    (hs : ∀ s ∈ segs, StatsSound s) (hp : ∀ s ∈ segs, PartitionSound s) :
    ((filterSegments q segs).flatMap (·.recs)).filter (recordPasses q) =
      ((segs.filter (fun s => s.topic == q.topic)).flatMap (·.recs)).filter (recordPred q) := by
  induction segs with
  | nil => rfl
  | cons s rest ih =>
    have ih' := ih (fun x hx => hs x (List.mem_cons_of_mem _ hx)) (fun x hx => hp x (List.mem_cons_of_mem _ hx))
    have hss := hs s (by simp)
    have hps := hp s (by simp)
    unfold filterSegments at ih' ⊢
    by_cases htopic : s.topic = q.topic
    · have ht : (s.topic == q.topic) = true := by simpa using htopic
      by_cases hsel : segmentSelected q s = true
      · simp only [List.filter_cons, hsel, ht, if_true, List.flatMap_cons, List.filter_append]
        rw [ih']
        congr 1
        -- inside a selected segment the partition filter holds for every record
        apply List.filter_congr
        intro r hr
        unfold recordPred
        unfold segmentSelected at hsel
        simp only [Bool.and_eq_true] at hsel
        have hpart := hps r hr
        split
        · rename_i p hq
          have := hsel.1.1.2
          simp only [hq] at this
          simp only [hpart, this, Bool.true_and]
        · simp
      · have hsel' : segmentSelected q s = false := by simpa using hsel
        simp only [List.filter_cons, hsel', ht, if_true, Bool.false_eq_true, if_false, List.flatMap_cons,
          List.filter_append]
        rw [ih']
        have := KafVerif.C36.skip_sound q s hss hps htopic hsel'
        have hnil : s.recs.filter (recordPred q) = [] := by
          rw [List.filter_eq_nil_iff]
          intro r hr
          simp [this r hr]
        rw [hnil]; simp
    · have ht : (s.topic == q.topic) = false := by simpa using htopic
      have hsel : segmentSelected q s = false := by simp [segmentSelected, ht]
      simp only [List.filter_cons, hsel, ht, Bool.false_eq_true, if_false]
      exact ih'

/-! ### the record loop -/

theorem foldl_segments (q : Query) (segs : List SegRef) (st : Loop) :
    segs.foldl (segmentStep q) st = (segs.flatMap (·.recs)).foldl (recordStep q) st := by
  induction segs generalizing st with
  | nil => rfl
  | cons s rest ih => simp [List.foldl_cons, List.flatMap_cons, List.foldl_append, segmentStep, ih]

/-- records that fail the filters do not change the loop state -/
theorem foldl_skip (q : Query) (rs : List Rec) (st : Loop) :
    rs.foldl (recordStep q) st = (rs.filter (recordPasses q)).foldl (recordStep q) st := by
  induction rs generalizing st with
  | nil => rfl
  | cons r rest ih =>
    by_cases hp : recordPasses q r = true
    · simp [List.filter_cons, hp, ih]
    · have hp' : recordPasses q r = false := by simpa using hp
      have : recordStep q st r = st := by
        unfold recordStep
        split
        · rfl
        · simp [hp']
      simp [List.filter_cons, hp', this, ih]

/-- ORDER BY: passing records are appended to the buffer -/
theorem loop_order (q : Query) (ho : q.order.isSome = true) (ps : List Rec) (hps : ∀ r ∈ ps, recordPasses q r = true)
    (st : Loop) (hd : st.done = false) :
    ps.foldl (recordStep q) st = { st with rows := st.rows ++ ps } := by
  induction ps generalizing st with
  | nil => simp
  | cons r rest ih =>
    have hr := hps r (by simp)
    have hstep : recordStep q st r = { st with rows := st.rows ++ [r] } := by
      unfold recordStep; simp [hd, hr, ho]
    rw [List.foldl_cons, hstep,
      ih (fun x hx => hps x (List.mem_cons_of_mem _ hx)) { st with rows := st.rows ++ [r] } hd]
    simp

theorem appendTail_fold (n : Nat) (hn : 0 < n) (xs : List Rec) :
    ∀ (t : List Rec), t.length ≤ n →
      xs.foldl (fun acc r => appendTailRow acc r n) t = (t ++ xs).drop ((t ++ xs).length - n) := by
  induction xs with
  | nil =>
    intro t ht
    have : t.length - n = 0 := by omega
    simp [this]
  | cons x rest ih =>
    intro t ht
    rw [List.foldl_cons]
    have hne : n ≠ 0 := by omega
    by_cases hlt : t.length < n
    · have : appendTailRow t x n = t ++ [x] := by simp [appendTailRow, hne, hlt]
      rw [this, ih (t ++ [x]) (by simp; omega)]
      simp
    · have hlen : t.length = n := by omega
      have : appendTailRow t x n = t.tail ++ [x] := by simp [appendTailRow, hne, hlt]
      rw [this, ih (t.tail ++ [x]) (by simp; omega)]
      cases t with
      | nil => simp at hlen; omega
      | cons a t' =>
        simp only [List.length_cons] at hlen
        have hL : t' ++ [x] ++ rest = t' ++ x :: rest := by simp
        have hlenL : (t' ++ x :: rest).length = n + rest.length := by simp; omega
        simp only [List.tail_cons]
        rw [hL]
        show List.drop _ _ = List.drop ((a :: (t' ++ x :: rest)).length - n) (a :: (t' ++ x :: rest))
        have h2 : (a :: (t' ++ x :: rest)).length - n = ((t' ++ x :: rest).length - n) + 1 := by
          simp only [List.length_cons]; omega
        rw [h2, List.drop_succ_cons]

/-- TAIL: passing records go through the ring -/
theorem loop_tail (q : Query) (ho : q.order.isSome = false) (ht : 0 < q.tail) (ps : List Rec)
    (hps : ∀ r ∈ ps, recordPasses q r = true) (st : Loop) (hd : st.done = false) :
    ps.foldl (recordStep q) st =
      { st with tailRows := ps.foldl (fun acc r => appendTailRow acc r q.tail) st.tailRows } := by
  induction ps generalizing st with
  | nil => simp
  | cons r rest ih =>
    have hr := hps r (by simp)
    have hstep : recordStep q st r = { st with tailRows := appendTailRow st.tailRows r q.tail } := by
      unfold recordStep; simp [hd, hr, ho, ht]
    rw [List.foldl_cons, hstep,
      ih (fun x hx => hps x (List.mem_cons_of_mem _ hx)) { st with tailRows := appendTailRow st.tailRows r q.tail } hd]
    simp

/-- once the limit is reached nothing changes -/
theorem loop_done (q : Query) (ps : List Rec) (st : Loop) (hd : st.done = true) :
    ps.foldl (recordStep q) st = st := by
  induction ps with
  | nil => rfl
  | cons r rest ih =>
    have : recordStep q st r = st := by unfold recordStep; simp [hd]
    rw [List.foldl_cons, this, ih]

/-- plain mode: rows are sent until `limit` of them went out -/
theorem loop_plain (q : Query) (ho : q.order.isSome = false) (ht : q.tail = 0) (hl : 0 < q.limit) (ps : List Rec)
    (hps : ∀ r ∈ ps, recordPasses q r = true) :
    ∀ (st : Loop), st.done = false → st.sent.length < q.limit →
      (ps.foldl (recordStep q) st).sent = (st.sent ++ ps).take q.limit ∧
      ((ps.foldl (recordStep q) st).done = false → (st.sent ++ ps).length < q.limit) := by
  induction ps with
  | nil =>
    intro st hd hlen
    simp only [List.foldl_nil, List.append_nil]
    exact ⟨(List.take_of_length_le (by omega)).symm, fun _ => hlen⟩
  | cons r rest ih =>
    intro st hd hlen
    have hr := hps r (by simp)
    have hstep : recordStep q st r =
        { st with sent := st.sent ++ [r], done := decide ((st.sent ++ [r]).length ≥ q.limit) } := by
      unfold recordStep; simp [hd, hr, ho, ht]
    rw [List.foldl_cons, hstep]
    have hlen1 : (st.sent ++ [r]).length = st.sent.length + 1 := by simp
    by_cases hfull : q.limit ≤ st.sent.length + 1
    · -- the limit is reached with this row
      have hdec : decide ((st.sent ++ [r]).length ≥ q.limit) = true := by
        rw [hlen1]; exact decide_eq_true hfull
      rw [hdec]
      rw [loop_done q rest _ rfl]
      refine ⟨?_, fun h => by simp at h⟩
      have : st.sent ++ r :: rest = (st.sent ++ [r]) ++ rest := by simp
      show st.sent ++ [r] = List.take q.limit (st.sent ++ r :: rest)
      rw [this, List.take_append_of_le_length (by omega), List.take_of_length_le (by omega)]
    · have hdec : decide ((st.sent ++ [r]).length ≥ q.limit) = false := by
        rw [hlen1]; exact decide_eq_false hfull
      rw [hdec]
      have := ih (fun x hx => hps x (List.mem_cons_of_mem _ hx))
        { st with sent := st.sent ++ [r], done := false } rfl (by show (st.sent ++ [r]).length < q.limit; omega)
      simpa using this

/-! ### the theorem -/

theorem filter_passes_all (q : Query) (rs : List Rec) : ∀ r ∈ rs.filter (recordPasses q), recordPasses q r = true :=
  fun r hr => (List.mem_filter.mp hr).2

/-- **C36.** With sound statistics (any subset of them present) the rows sent by `handleSelect`
are the query's filters, limit, tail and ordering applied directly to all records of the topic's
completed segments — for every segment list and every query. -/
theorem _root_.KafVerif.C36.select_eq_direct (q : Query) (segs : List SegRef)
    (hs : ∀ s ∈ segs, StatsSound s) (hp : ∀ s ∈ segs, PartitionSound s) (hl : 0 < q.limit) :
    select q segs = direct q segs := by
  unfold select direct
  simp only []
  rw [foldl_segments, foldl_skip, passed_eq q segs hs hp]
  generalize hps : ((segs.filter (fun s => s.topic == q.topic)).flatMap (·.recs)).filter (recordPred q) = ps
  have hpass : ∀ r ∈ ps, recordPasses q r = true := by
    intro r hr
    rw [← hps] at hr
    have := (List.mem_filter.mp hr).2
    unfold recordPred at this
    simp only [Bool.and_eq_true] at this
    exact this.2
  unfold post
  cases ho : q.order with
  | some desc =>
    rw [loop_order q (by simp [ho]) ps hpass _ rfl]
    simp
  | none =>
    by_cases ht : 0 < q.tail
    · rw [loop_tail q (by simp [ho]) ht ps hpass _ rfl]
      simp only [Bool.false_eq_true, if_false, ht, if_true, List.nil_append]
      rw [appendTail_fold q.tail ht ps [] (by simp)]
      simp
    · have ht0 : q.tail = 0 := by omega
      have := loop_plain q (by simp [ho]) ht0 hl ps hpass ⟨[], [], [], false⟩ rfl (by simpa using hl)
      simp only [List.nil_append] at this
      simp only [ht, if_false]
      split
      · exact this.1
      · exact this.1

/-! ### statistics derived by discovery -/

/-- each listed segment's offsets lie in `[base, next base)` (a well-formed log: C02) -/
def InRange : Listed → Prop
  | [] => True
  | [(b, rs)] => ∀ r ∈ rs, b ≤ r.offset
  | (b, rs) :: (nb, rs') :: rest => (∀ r ∈ rs, b ≤ r.offset ∧ r.offset < nb) ∧ InRange ((nb, rs') :: rest)

/-- **C36 (discovery).** For one partition's segments sorted by base offset with every offset
in `[base, next base)`, `MinOffset = base` and `MaxOffset = next base − 1` bound the records. -/
theorem _root_.KafVerif.C36.discovery_offsets_sound (l : Listed) (h : InRange l) :
    ∀ p ∈ l.zip (offsetStats l), ∀ r ∈ p.1.2,
      (∀ m, p.2.1 = some m → m ≤ r.offset) ∧ (∀ m, p.2.2 = some m → r.offset ≤ m) := by
  induction l with
  | nil => intro p hp; simp [offsetStats] at hp
  | cons a rest ih =>
    obtain ⟨b, rs⟩ := a
    cases rest with
    | nil =>
      intro p hp r hr
      simp only [offsetStats, List.zip_cons_cons, List.zip_nil_right, List.mem_singleton] at hp
      subst hp
      simp only [InRange] at h
      exact ⟨fun m hm => by simp at hm; subst hm; exact h r hr, fun m hm => by simp at hm⟩
    | cons a2 rest2 =>
      obtain ⟨nb, rs'⟩ := a2
      simp only [InRange] at h
      intro p hp r hr
      simp only [offsetStats, List.zip_cons_cons, List.mem_cons] at hp
      rcases hp with hp | hp
      · subst hp
        have := h.1 r hr
        refine ⟨fun m hm => by simp at hm; subst hm; exact this.1, fun m hm => ?_⟩
        simp only at hm
        split at hm
        · simp at hm; omega
        · simp at hm
      · exact ih h.2 p (by simpa [List.zip_cons_cons] using hp) r hr

theorem scanStep_bounds (a : Int × Int × Int × Int) (x : Rec) :
    ((scanStep a x).1 ≤ a.1 ∧ (scanStep a x).1 ≤ x.ts) ∧ (a.2.1 ≤ (scanStep a x).2.1 ∧ x.ts ≤ (scanStep a x).2.1) ∧
    ((scanStep a x).2.2.1 ≤ a.2.2.1 ∧ (scanStep a x).2.2.1 ≤ x.offset) ∧
    (a.2.2.2 ≤ (scanStep a x).2.2.2 ∧ x.offset ≤ (scanStep a x).2.2.2) := by
  unfold scanStep
  simp only []
  refine ⟨⟨?_, ?_⟩, ⟨?_, ?_⟩, ⟨?_, ?_⟩, ⟨?_, ?_⟩⟩ <;> split <;> omega

theorem scan_fold_sound (rs : List Rec) : ∀ (a : Int × Int × Int × Int),
    ((rs.foldl scanStep a).1 ≤ a.1 ∧ a.2.1 ≤ (rs.foldl scanStep a).2.1 ∧
      (rs.foldl scanStep a).2.2.1 ≤ a.2.2.1 ∧ a.2.2.2 ≤ (rs.foldl scanStep a).2.2.2) ∧
    ∀ r ∈ rs, (rs.foldl scanStep a).1 ≤ r.ts ∧ r.ts ≤ (rs.foldl scanStep a).2.1 ∧
      (rs.foldl scanStep a).2.2.1 ≤ r.offset ∧ r.offset ≤ (rs.foldl scanStep a).2.2.2 := by
  induction rs with
  | nil => intro a; simp
  | cons x rest ih =>
    intro a
    simp only [List.foldl_cons]
    obtain ⟨⟨h1, h2, h3, h4⟩, hall⟩ := ih (scanStep a x)
    obtain ⟨⟨b1, b1'⟩, ⟨b2, b2'⟩, ⟨b3, b3'⟩, ⟨b4, b4'⟩⟩ := scanStep_bounds a x
    refine ⟨⟨by omega, by omega, by omega, by omega⟩, ?_⟩
    intro r hr
    rcases List.mem_cons.mp hr with rfl | hr
    · exact ⟨by omega, by omega, by omega, by omega⟩
    · exact hall r hr

/-- **C36 (time index).** The footer `scanSegment` computes from a segment's decoded records
bounds every one of them (timestamps and offsets). -/
theorem _root_.KafVerif.C36.scan_sound (rs : List Rec) (mnT mxT mnO mxO : Int)
    (h : scanSegment rs = some (mnT, mxT, mnO, mxO)) :
    ∀ r ∈ rs, mnT ≤ r.ts ∧ r.ts ≤ mxT ∧ mnO ≤ r.offset ∧ r.offset ≤ mxO := by
  cases rs with
  | nil => simp [scanSegment] at h
  | cons r0 rest =>
    simp only [scanSegment, Option.some.injEq] at h
    have := scan_fold_sound rest (r0.ts, r0.ts, r0.offset, r0.offset)
    rw [h] at this
    obtain ⟨⟨h1, h2, h3, h4⟩, hall⟩ := this
    simp only at h1 h2 h3 h4
    intro r hr
    rcases List.mem_cons.mp hr with rfl | hr
    · exact ⟨h1, h2, h3, h4⟩
    · exact hall r hr

/-- two segments of one partition whose offset ranges overlap (bases 0 and 3, the first holds
offsets 0 and 5): the derived `MaxOffset` of the first is 2, and `_offset >= 4` loses row 5. -/
def overlapSegs : List SegRef :=
  [⟨0, 0, some 0, some 2, none, none, [⟨0, 0, 0, 10⟩, ⟨0, 0, 5, 11⟩], none⟩,
   ⟨0, 0, some 3, none, none, none, [⟨1, 0, 3, 12⟩, ⟨1, 0, 4, 13⟩], none⟩]

theorem _root_.KafVerif.C36.overlap_unsound :
    offsetStats [(0, [⟨0, 0, 0, 10⟩, ⟨0, 0, 5, 11⟩]), (3, [⟨1, 0, 3, 12⟩, ⟨1, 0, 4, 13⟩])] = [(some 0, some 2), (some 3, none)] ∧
    select ⟨0, none, some 4, none, none, none, 100, 0, none⟩ overlapSegs ≠
      direct ⟨0, none, some 4, none, none, none, 100, 0, none⟩ overlapSegs := by
  refine ⟨by decide, by decide⟩

/-! ### non-vacuity -/

def okSegs : List SegRef :=
  [⟨0, 0, some 0, some 2, some 10, some 12, [⟨0, 0, 0, 10⟩, ⟨0, 0, 1, 12⟩, ⟨0, 0, 2, 11⟩], none⟩,
   ⟨0, 0, some 3, none, none, none, [⟨1, 0, 3, 12⟩, ⟨1, 0, 4, 13⟩], none⟩,
   ⟨0, 1, none, none, none, some 50, [⟨2, 1, 0, 50⟩], none⟩,
   ⟨1, 0, some 0, none, none, none, [⟨3, 0, 0, 1⟩], none⟩]

example : (∀ s ∈ okSegs, StatsSound s) ∧ (∀ s ∈ okSegs, PartitionSound s) := by
  constructor
  · intro s hs
    simp only [okSegs, List.mem_cons, List.not_mem_nil, or_false] at hs
    rcases hs with rfl | rfl | rfl | rfl <;> intro r hr <;>
      simp only [List.mem_cons, List.not_mem_nil, or_false] at hr <;>
      (try rcases hr with rfl | rfl | rfl) <;> (try rcases hr with rfl | rfl) <;> (try subst hr) <;> simp
  · intro s hs
    simp only [okSegs, List.mem_cons, List.not_mem_nil, or_false] at hs
    rcases hs with rfl | rfl | rfl | rfl <;> intro r hr <;>
      simp only [List.mem_cons, List.not_mem_nil, or_false] at hr <;>
      (try rcases hr with rfl | rfl | rfl) <;> (try rcases hr with rfl | rfl) <;> (try subst hr) <;> rfl

example : select ⟨0, some 0, some 1, none, none, some 12, 100, 0, none⟩ okSegs =
    [⟨0, 0, 1, 12⟩, ⟨0, 0, 2, 11⟩, ⟨1, 0, 3, 12⟩] := by decide

example : InRange [(0, [⟨0, 0, 0, 10⟩, ⟨0, 0, 2, 11⟩]), (3, [⟨1, 0, 3, 12⟩])] := by
  simp [InRange]

/-! ### end to end: the listing the S3 lister derives is sound for a well-formed log -/

def sameTP (a b : Obj) : Prop := a.topic = b.topic ∧ a.partition = b.partition

/-- a well-formed S3 log (what C02 promises): per partition the base offsets are distinct and a
segment's offsets lie in `[base, b.base)` for every segment `b` of the partition with a larger base -/
structure WellFormedObjs (objs : List Obj) : Prop where
  ge_base : ∀ a ∈ objs, ∀ p ∈ a.recs, a.base ≤ p.1
  lt_next : ∀ a ∈ objs, ∀ b ∈ objs, sameTP a b → a.base < b.base → ∀ p ∈ a.recs, p.1 < b.base
  distinct : objs.Pairwise fun a b => sameTP a b → a.base ≠ b.base

def Adj (R : Obj → Obj → Prop) : List Obj → Prop
  | [] => True
  | [_] => True
  | a :: b :: t => R a b ∧ Adj R (b :: t)

theorem objLe_total (a b : Obj) (h : objLe a b = false) : objLe b a = true := by
  unfold objLe at h ⊢
  by_cases ht : a.topic = b.topic
  · by_cases hp : a.partition = b.partition
    · simp [ht, hp] at h ⊢; omega
    · have hp' : ¬ b.partition = a.partition := fun e => hp e.symm
      simp [ht, hp, hp'] at h ⊢; omega
  · have ht' : ¬ b.topic = a.topic := fun e => ht e.symm
    simp [ht, ht'] at h ⊢; omega

theorem objLe_same {a b : Obj} (h : objLe a b = true) (hs : sameTP a b) : a.base ≤ b.base := by
  unfold objLe at h
  simp [hs.1, hs.2] at h
  exact h

theorem insertObj_perm (o : Obj) (l : List Obj) : (insertObj o l).Perm (o :: l) := by
  induction l with
  | nil => exact List.Perm.refl _
  | cons x t ih =>
    unfold insertObj
    split
    · exact List.Perm.refl _
    · exact (List.Perm.cons x ih).trans (List.Perm.swap o x t)

theorem sortObjs_perm (l : List Obj) : (sortObjs l).Perm l := by
  induction l with
  | nil => exact List.Perm.refl _
  | cons x t ih =>
    show (insertObj x (sortObjs t)).Perm (x :: t)
    exact (insertObj_perm x _).trans (List.Perm.cons x ih)

theorem insertObj_adj (o : Obj) (l : List Obj) (h : Adj (fun a b => objLe a b = true) l) :
    Adj (fun a b => objLe a b = true) (insertObj o l) := by
  induction l with
  | nil => simp [insertObj, Adj]
  | cons x t ih =>
    unfold insertObj
    by_cases hle : objLe o x = true
    · rw [if_pos hle]; exact ⟨hle, h⟩
    · rw [if_neg hle]
      have hxo : objLe x o = true := objLe_total o x (by simpa using hle)
      cases t with
      | nil => simp only [insertObj, Adj]; exact ⟨hxo, trivial⟩
      | cons y t' =>
        have hxy : objLe x y = true := h.1
        have ih' := ih h.2
        unfold insertObj at ih' ⊢
        by_cases hoy : objLe o y = true
        · rw [if_pos hoy] at ih' ⊢; exact ⟨hxo, ih'⟩
        · rw [if_neg hoy] at ih' ⊢; exact ⟨hxy, ih'⟩

theorem sortObjs_adj (l : List Obj) : Adj (fun a b => objLe a b = true) (sortObjs l) := by
  induction l with
  | nil => trivial
  | cons x t ih => exact insertObj_adj x _ ih

theorem buildRefs_sound (objs : List Obj) (hwf : WellFormedObjs objs) (ti : Bool) :
    ∀ (l : List Obj) (i : Nat), (∀ x ∈ l, x ∈ objs) → Adj (fun a b => objLe a b = true) l →
      l.Pairwise (fun a b => sameTP a b → a.base ≠ b.base) →
      ∀ s ∈ buildRefs ti l i, StatsSound s ∧ PartitionSound s := by
  intro l
  induction l with
  | nil => intro i _ _ _ s hs; simp [buildRefs] at hs
  | cons o rest ih =>
    intro i hmem hadj hdist s hs
    simp only [buildRefs, List.mem_cons] at hs
    rcases hs with rfl | hs
    · have ho : o ∈ objs := hmem o (by simp)
      constructor
      · intro r hr
        simp only [List.mem_map] at hr
        obtain ⟨p, hp, rfl⟩ := hr
        refine ⟨?_, ?_, ?_, ?_⟩
        · intro m hm; simp only [Option.some.injEq] at hm; subst hm; exact hwf.ge_base o ho p hp
        · intro m hm
          simp only at hm
          -- where does MaxOffset come from?
          have hfooter : ∀ m', Option.map (fun x => x.2.2.2)
              (if ti = true then scanSegment (o.recs.map fun p => (⟨i, o.partition, p.1, p.2⟩ : Rec)) else none) = some m' →
              p.1 ≤ m' := by
            intro m' hm'
            cases hti : ti with
            | false => simp [hti] at hm'
            | true =>
              simp only [hti, if_true, Option.map_eq_some_iff] at hm'
              obtain ⟨⟨a, b, c, d⟩, hscan, hd⟩ := hm'
              simp only at hd
              subst hd
              have := KafVerif.C36.scan_sound _ a b c d hscan ⟨i, o.partition, p.1, p.2⟩
                (List.mem_map.mpr ⟨p, hp, rfl⟩)
              exact this.2.2.2
          cases rest with
          | nil => exact hfooter m hm
          | cons n rest' =>
            simp only at hm
            split at hm
            · rename_i hsame
              split at hm
              · rename_i hpos
                simp only [Option.some.injEq] at hm
                subst hm
                have hn : n ∈ objs := hmem n (by simp)
                have hst : sameTP o n := ⟨hsame.1.symm, hsame.2.symm⟩
                have hle := objLe_same hadj.1 hst
                have hne := (List.pairwise_cons.mp hdist).1 n (by simp) hst
                have := hwf.lt_next o ho n hn hst (by omega) p hp
                show p.1 ≤ n.base - 1
                omega
              · exact hfooter m hm
            · exact hfooter m hm
        · intro m hm
          simp only at hm
          cases hti : ti with
          | false => simp [hti] at hm
          | true =>
            simp only [hti, if_true, Option.map_eq_some_iff] at hm
            obtain ⟨⟨a, b, c, d⟩, hscan, hd⟩ := hm
            simp only at hd
            subst hd
            exact (KafVerif.C36.scan_sound _ a b c d hscan ⟨i, o.partition, p.1, p.2⟩
              (List.mem_map.mpr ⟨p, hp, rfl⟩)).1
        · intro m hm
          simp only at hm
          cases hti : ti with
          | false => simp [hti] at hm
          | true =>
            simp only [hti, if_true, Option.map_eq_some_iff] at hm
            obtain ⟨⟨a, b, c, d⟩, hscan, hd⟩ := hm
            simp only at hd
            subst hd
            exact (KafVerif.C36.scan_sound _ a b c d hscan ⟨i, o.partition, p.1, p.2⟩
              (List.mem_map.mpr ⟨p, hp, rfl⟩)).2.1
      · intro r hr
        simp only [List.mem_map] at hr
        obtain ⟨p, _, rfl⟩ := hr
        rfl
    · have hadj' : Adj (fun a b => objLe a b = true) rest := by
        cases rest with
        | nil => trivial
        | cons n t => exact hadj.2
      exact ih (i + 1) (fun x hx => hmem x (List.mem_cons_of_mem _ hx)) hadj' (List.pairwise_cons.mp hdist).2 s hs

/-- **C36 (listing).** For a well-formed S3 log, every segment reference `ListCompleted`
returns (with or without the time index) carries sound statistics. -/
theorem _root_.KafVerif.C36.listing_sound (objs : List Obj) (hwf : WellFormedObjs objs) (ti : Bool) :
    ∀ s ∈ listCompleted objs ti, StatsSound s ∧ PartitionSound s := by
  unfold listCompleted
  have hperm := sortObjs_perm (objs.filter (·.complete))
  apply buildRefs_sound objs hwf ti
  · intro x hx
    exact (List.mem_filter.mp (hperm.mem_iff.mp hx)).1
  · exact sortObjs_adj _
  · have hsym : ∀ {x y : Obj}, (sameTP x y → x.base ≠ y.base) → (sameTP y x → y.base ≠ x.base) :=
      fun h hs e => h ⟨hs.1.symm, hs.2.symm⟩ e.symm
    exact (List.Perm.pairwise_iff hsym hperm).mpr (hwf.distinct.filter _)

/-- **C36 (end to end).** Over the listing derived from any well-formed S3 log, a SELECT returns
exactly the direct filtering of the listed segments' records. -/
theorem _root_.KafVerif.C36.select_over_listing (objs : List Obj) (hwf : WellFormedObjs objs) (ti : Bool)
    (q : Query) (hl : 0 < q.limit) :
    select q (listCompleted objs ti) = direct q (listCompleted objs ti) :=
  KafVerif.C36.select_eq_direct q _ (fun s hs => (KafVerif.C36.listing_sound objs hwf ti s hs).1)
    (fun s hs => (KafVerif.C36.listing_sound objs hwf ti s hs).2) hl

example : WellFormedObjs [⟨0, 0, 0, true, [(0, 10), (2, 11)], none⟩, ⟨0, 0, 3, true, [(3, 12)], none⟩, ⟨0, 1, 0, false, [], none⟩] := by
  refine ⟨?_, ?_, ?_⟩
  · intro a ha p hp
    simp only [List.mem_cons, List.not_mem_nil, or_false] at ha
    rcases ha with rfl | rfl | rfl <;> simp at hp <;> (try rcases hp with rfl | rfl) <;> (try subst hp) <;> simp
  · intro a ha b hb hs hlt p hp
    simp only [List.mem_cons, List.not_mem_nil, or_false] at ha hb
    rcases ha with rfl | rfl | rfl <;> rcases hb with rfl | rfl | rfl <;> simp [sameTP] at hs hlt hp ⊢ <;>
      (try rcases hp with rfl | rfl) <;> (try subst hp) <;> simp
  · simp [sameTP]

/-! ### faults -/

theorem select_eq_finish (q : Query) (segs : List SegRef) :
    select q segs = finishRows q ((filterSegments q segs).foldl (segmentStep q) ⟨[], [], [], false⟩) := rfl

theorem candidatesFrom_fst (q : Query) (segs : List SegRef) : ∀ i,
    (candidatesFrom q segs i).map Prod.fst = filterSegments q segs := by
  induction segs with
  | nil => intro i; rfl
  | cons s rest ih =>
    intro i
    unfold candidatesFrom filterSegments
    by_cases h : segmentSelected q s = true
    · simp only [h, if_true, List.map_cons, List.filter_cons]
      rw [ih (i + 1)]; rfl
    · have h' : segmentSelected q s = false := by simpa using h
      simp only [h', Bool.false_eq_true, if_false, List.filter_cons]
      rw [ih (i + 1)]; rfl

theorem segmentStep_done (q : Query) (st : Loop) (s : SegRef) (hd : st.done = true) : segmentStep q st s = st :=
  loop_done q s.recs st hd

theorem foldF_failed (q : Query) (fault : Nat → Bool) (cands : List (SegRef × Nat)) (st : Loop) :
    cands.foldl (segmentStepF q fault) (st, true) = (st, true) := by
  induction cands with
  | nil => rfl
  | cons c rest ih => simp [List.foldl_cons, segmentStepF, ih]

/-- a run of the segment loop that did not fail went through exactly the un-faulted loop -/
theorem foldF_ok (q : Query) (fault : Nat → Bool) (cands : List (SegRef × Nat)) : ∀ (st : Loop),
    (cands.foldl (segmentStepF q fault) (st, false)).2 = false →
    (cands.foldl (segmentStepF q fault) (st, false)).1 = (cands.map Prod.fst).foldl (segmentStep q) st := by
  induction cands with
  | nil => intro st _; rfl
  | cons c rest ih =>
    intro st h
    rw [List.foldl_cons] at h ⊢
    simp only [List.map_cons, List.foldl_cons]
    by_cases hd : st.done = true
    · have hs : segmentStepF q fault (st, false) c = (st, false) := by simp [segmentStepF, hd]
      rw [hs] at h ⊢
      rw [segmentStep_done q st c.1 hd]
      exact ih st h
    · have hd' : st.done = false := by simpa using hd
      by_cases hf : fault c.2 = true
      · have hs : segmentStepF q fault (st, false) c = (st, true) := by simp [segmentStepF, hd', hf]
        rw [hs, foldF_failed] at h
        simp at h
      · have hf' : fault c.2 = false := by simpa using hf
        have hs : segmentStepF q fault (st, false) c = (segmentStep q st c.1, false) := by
          simp [segmentStepF, hd', hf']
        rw [hs] at h ⊢
        exact ih _ h

/-- faults that hit no candidate leave the loop untouched -/
theorem foldF_clean (q : Query) (fault : Nat → Bool) (cands : List (SegRef × Nat)) : ∀ (st : Loop),
    (∀ p ∈ cands, fault p.2 = false) →
    cands.foldl (segmentStepF q fault) (st, false) = ((cands.map Prod.fst).foldl (segmentStep q) st, false) := by
  induction cands with
  | nil => intro st _; rfl
  | cons c rest ih =>
    intro st h
    have hc := h c (by simp)
    have hrest : ∀ p ∈ rest, fault p.2 = false := fun p hp => h p (List.mem_cons_of_mem _ hp)
    simp only [List.foldl_cons, List.map_cons]
    by_cases hd : st.done = true
    · have hs : segmentStepF q fault (st, false) c = (st, false) := by simp [segmentStepF, hd]
      rw [hs, segmentStep_done q st c.1 hd]
      exact ih st hrest
    · have hd' : st.done = false := by simpa using hd
      have hs : segmentStepF q fault (st, false) c = (segmentStep q st c.1, false) := by
        simp [segmentStepF, hd', hc]
      rw [hs]
      exact ih _ hrest

/-- **C36 (faults, refinement).** Whatever the fault oracle: a query that completes sent exactly
the rows of the un-faulted `handleSelect`. -/
theorem _root_.KafVerif.C36.selectF_ok_eq_select (q : Query) (segs : List SegRef) (lf : Bool) (fault : Nat → Bool)
    (rows : List Rec) (h : selectF q segs lf fault = some rows) : rows = select q segs := by
  unfold selectF at h
  cases lf with
  | true => simp at h
  | false =>
    simp only [Bool.false_eq_true, if_false] at h
    split at h
    · simp at h
    · rename_i hok
      have hok' : ((candidatesFrom q segs 0).foldl (segmentStepF q fault) (⟨[], [], [], false⟩, false)).2 = false := by
        simpa using hok
      simp only [Option.some.injEq] at h
      rw [← h, foldF_ok q fault _ _ hok', candidatesFrom_fst, select_eq_finish]

/-- **C36 (faults).** For every segment list with sound statistics, every query and EVERY fault
oracle (listing error; context cancellation / `Decode` error per listing position): if the
query completes, its rows are exactly the direct filtering of ALL the topic's records — a fault
can only turn the answer into an error, never into a partial result. -/
theorem _root_.KafVerif.C36.select_ok_eq_direct (q : Query) (segs : List SegRef)
    (hs : ∀ s ∈ segs, StatsSound s) (hp : ∀ s ∈ segs, PartitionSound s) (hl : 0 < q.limit)
    (lf : Bool) (fault : Nat → Bool) (rows : List Rec) (h : selectF q segs lf fault = some rows) :
    rows = direct q segs := by
  rw [KafVerif.C36.selectF_ok_eq_select q segs lf fault rows h]
  exact KafVerif.C36.select_eq_direct q segs hs hp hl

/-- **C36 (faults, liveness side).** Faults that hit no candidate segment (segments skipped by
partition / statistics, other topics) do not fail the query: it completes with the full result. -/
theorem _root_.KafVerif.C36.selectF_clean (q : Query) (segs : List SegRef) (fault : Nat → Bool)
    (h : ∀ p ∈ candidatesFrom q segs 0, fault p.2 = false) :
    selectF q segs false fault = some (select q segs) := by
  unfold selectF
  simp only [Bool.false_eq_true, if_false]
  rw [foldF_clean q fault _ _ h, candidatesFrom_fst, select_eq_finish]
  simp

/-- in ORDER BY / TAIL mode the loop never returns early -/
theorem recordStep_not_done (q : Query) (hm : q.order.isSome = true ∨ 0 < q.tail) (st : Loop) (r : Rec)
    (hd : st.done = false) : (recordStep q st r).done = false := by
  unfold recordStep
  rcases hm with ho | ht
  · simp only [hd, ho, if_true, Bool.false_eq_true, if_false]
    split <;> first | exact hd | rfl
  · have ht' : q.tail > 0 := ht
    simp only [hd, ht', Bool.false_eq_true, if_false, if_true]
    split
    · exact hd
    · split <;> first | exact hd | rfl

theorem segmentStep_not_done (q : Query) (hm : q.order.isSome = true ∨ 0 < q.tail) (s : SegRef) : ∀ (st : Loop),
    st.done = false → (segmentStep q st s).done = false := by
  unfold segmentStep
  induction s.recs with
  | nil => intro st h; exact h
  | cons r rest ih => intro st h; exact ih _ (recordStep_not_done q hm st r h)

theorem foldF_fault (q : Query) (hm : q.order.isSome = true ∨ 0 < q.tail) (fault : Nat → Bool)
    (cands : List (SegRef × Nat)) : ∀ (st : Loop), st.done = false →
    (∃ p ∈ cands, fault p.2 = true) → (cands.foldl (segmentStepF q fault) (st, false)).2 = true := by
  induction cands with
  | nil => intro st _ h; simp at h
  | cons c rest ih =>
    intro st hd h
    rw [List.foldl_cons]
    by_cases hf : fault c.2 = true
    · have hs : segmentStepF q fault (st, false) c = (st, true) := by simp [segmentStepF, hd, hf]
      rw [hs, foldF_failed]
    · have hf' : fault c.2 = false := by simpa using hf
      have hs : segmentStepF q fault (st, false) c = (segmentStep q st c.1, false) := by
        simp [segmentStepF, hd, hf']
      rw [hs]
      apply ih _ (segmentStep_not_done q hm c.1 st hd)
      obtain ⟨p, hp, hpf⟩ := h
      rcases List.mem_cons.mp hp with rfl | hp
      · rw [hf'] at hpf; simp at hpf
      · exact ⟨p, hp, hpf⟩

/-- **C36 (faults, no silent skip).** An ORDER BY or TAIL query reads every candidate segment: a
fault on any candidate fails it (it is never answered from the remaining segments). -/
theorem _root_.KafVerif.C36.selectF_err_of_candidate_fault (q : Query) (segs : List SegRef)
    (hm : q.order.isSome = true ∨ 0 < q.tail) (lf : Bool) (fault : Nat → Bool)
    (h : ∃ p ∈ candidatesFrom q segs 0, fault p.2 = true) : selectF q segs lf fault = none := by
  unfold selectF
  cases lf with
  | true => simp
  | false =>
    simp only [Bool.false_eq_true, if_false]
    rw [foldF_fault q hm fault _ _ rfl h]
    simp

/-! ### the result cache -/

/-- every cached entry is the un-faulted answer of its query -/
def CacheSound {κ : Type} (segs : List SegRef) (qOf : κ → Query) (c : List (κ × List Rec)) : Prop :=
  ∀ e ∈ c, e.2 = select (qOf e.1) segs

theorem lookupKey_mem {κ : Type} [DecidableEq κ] (k : κ) (c : List (κ × List Rec)) (rows : List Rec)
    (h : lookupKey k c = some rows) : (k, rows) ∈ c := by
  induction c with
  | nil => simp [lookupKey] at h
  | cons e rest ih =>
    obtain ⟨k', r'⟩ := e
    unfold lookupKey at h
    by_cases hk : k' = k
    · simp only [hk, if_true, Option.some.injEq] at h
      subst h; subst hk; simp
    · simp only [hk, if_false] at h
      exact List.mem_cons_of_mem _ (ih h)

/-- one query through the caching handler keeps the cache sound, and a completed answer is the
un-faulted answer — also when it was served from the cache, also after faulted queries -/
theorem cachedSelect_sound {κ : Type} [DecidableEq κ] (segs : List SegRef) (qOf : κ → Query) (cacheable : κ → Bool)
    (c : List (κ × List Rec)) (hc : CacheSound segs qOf c) (k : κ) (lf : Bool) (fault : Nat → Bool) :
    CacheSound segs qOf (cachedSelect segs qOf cacheable c k lf fault).1 ∧
    ∀ rows, (cachedSelect segs qOf cacheable c k lf fault).2 = some rows → rows = select (qOf k) segs := by
  unfold cachedSelect
  by_cases hk : cacheable k = true
  · simp only [hk, if_true]
    cases hl : lookupKey k c with
    | some rows0 =>
      refine ⟨hc, ?_⟩
      intro rows hr
      simp only [Option.some.injEq] at hr
      subst hr
      exact hc (k, rows0) (lookupKey_mem k c rows0 hl)
    | none =>
      cases hsel : selectF (qOf k) segs lf fault with
      | none => exact ⟨hc, fun rows hr => by simp at hr⟩
      | some rows0 =>
        have := KafVerif.C36.selectF_ok_eq_select (qOf k) segs lf fault rows0 hsel
        refine ⟨?_, ?_⟩
        · intro e he
          rcases List.mem_cons.mp he with rfl | he
          · exact this
          · exact hc e he
        · intro rows hr
          simp only [Option.some.injEq] at hr
          subst hr; exact this
  · have hk' : cacheable k = false := by simpa using hk
    simp only [hk', Bool.false_eq_true, if_false]
    exact ⟨hc, fun rows hr => KafVerif.C36.selectF_ok_eq_select (qOf k) segs lf fault rows hr⟩

theorem runCached_sound {κ : Type} [DecidableEq κ] (segs : List SegRef) (qOf : κ → Query) (cacheable : κ → Bool)
    (ops : List (FQuery κ)) : ∀ (c : List (κ × List Rec)), CacheSound segs qOf c →
    ∀ p ∈ ops.zip (runCached segs qOf cacheable ops c), ∀ rows, p.2 = some rows → rows = select (qOf p.1.key) segs := by
  induction ops with
  | nil => intro c _ p hp; simp [runCached] at hp
  | cons x rest ih =>
    intro c hc p hp rows hr
    have hstep := cachedSelect_sound segs qOf cacheable c hc x.key x.listFault x.fault
    simp only [runCached, List.zip_cons_cons, List.mem_cons] at hp
    rcases hp with rfl | hp
    · exact hstep.2 rows hr
    · exact ih _ hstep.1 p hp rows hr

/-- **C36 (faults + result cache, histories).** For every history of queries over a segment set
with sound statistics, each hit by an arbitrary fault oracle, through the caching handler
(starting from any sound cache, e.g. the empty one or one that lost entries to TTL / eviction):
every answer that completes — computed or served from the cache — is exactly the direct filtering
of all the topic's records.  A faulted query never poisons a later one. -/
theorem _root_.KafVerif.C36.cached_ok_eq_direct {κ : Type} [DecidableEq κ] (segs : List SegRef) (qOf : κ → Query)
    (cacheable : κ → Bool) (hs : ∀ s ∈ segs, StatsSound s) (hp : ∀ s ∈ segs, PartitionSound s)
    (hl : ∀ k, 0 < (qOf k).limit) (ops : List (FQuery κ)) (c : List (κ × List Rec)) (hc : CacheSound segs qOf c) :
    ∀ p ∈ ops.zip (runCached segs qOf cacheable ops c), ∀ rows, p.2 = some rows →
      rows = direct (qOf p.1.key) segs := by
  intro p hp' rows hr
  rw [runCached_sound segs qOf cacheable ops c hc p hp' rows hr]
  exact KafVerif.C36.select_eq_direct _ segs hs hp (hl _)

/-- **C36 (faults, end to end).** Over the listing of any well-formed S3 log. -/
theorem _root_.KafVerif.C36.select_ok_over_listing (objs : List Obj) (hwf : WellFormedObjs objs) (ti : Bool)
    (q : Query) (hl : 0 < q.limit) (lf : Bool) (fault : Nat → Bool) (rows : List Rec)
    (h : selectF q (listCompleted objs ti) lf fault = some rows) : rows = direct q (listCompleted objs ti) :=
  KafVerif.C36.select_ok_eq_direct q _ (fun s hs => (KafVerif.C36.listing_sound objs hwf ti s hs).1)
    (fun s hs => (KafVerif.C36.listing_sound objs hwf ti s hs).2) hl lf fault rows h

/-! non-vacuity: `okSegs` (sound, shown above); a Decode fault on segment 1 fails an unbounded query,
is not reached by `LIMIT 2`, is not a candidate for `_partition = 1`; a listing fault fails everything -/
example : selectF ⟨0, none, none, none, none, none, 100, 0, none⟩ okSegs false (fun i => i == 1) = none := by decide
example : selectF ⟨0, none, none, none, none, none, 2, 0, none⟩ okSegs false (fun i => i == 1) =
    some [⟨0, 0, 0, 10⟩, ⟨0, 0, 1, 12⟩] := by decide
example : selectF ⟨0, some 1, none, none, none, none, 100, 0, none⟩ okSegs false (fun i => i == 1) =
    some [⟨2, 1, 0, 50⟩] := by decide
example : selectF ⟨0, none, none, none, none, none, 100, 0, some true⟩ okSegs true (fun _ => false) = none := by decide
/-- what the seeded change C36-r2-2 (skip the segment, go on) would answer is NOT the direct result -/
example : select ⟨0, none, none, none, none, none, 100, 0, none⟩ (okSegs.eraseIdx 1) ≠
    direct ⟨0, none, none, none, none, none, 100, 0, none⟩ okSegs := by decide
/-- a history: the faulted first attempt fails, the clean retry is computed and cached, the third is a cache
hit although its `Decode` would fail -/
example : runCached okSegs (fun (_ : Nat) => ⟨0, none, none, none, some 10, some 13, 100, 0, none⟩) (fun _ => true)
    [⟨7, false, fun i => i == 1⟩, ⟨7, false, fun _ => false⟩, ⟨7, false, fun i => i == 0⟩] [] =
    [none, some [⟨0, 0, 0, 10⟩, ⟨0, 0, 1, 12⟩, ⟨0, 0, 2, 11⟩, ⟨1, 0, 3, 12⟩, ⟨1, 0, 4, 13⟩],
     some [⟨0, 0, 0, 10⟩, ⟨0, 0, 1, 12⟩, ⟨0, 0, 2, 11⟩, ⟨1, 0, 3, 12⟩, ⟨1, 0, 4, 13⟩]] := by decide

/-! ### time-index faults -/

theorem buildRefsT_sound (objs : List Obj) (hwf : WellFormedObjs objs) (ti : Obj → Bool) :
    ∀ (l : List Obj) (i : Nat), (∀ x ∈ l, x ∈ objs) → Adj (fun a b => objLe a b = true) l →
      l.Pairwise (fun a b => sameTP a b → a.base ≠ b.base) →
      ∀ s ∈ buildRefsT ti l i, StatsSound s ∧ PartitionSound s := by
  intro l
  induction l with
  | nil => intro i _ _ _ s hs; simp [buildRefsT] at hs
  | cons o rest ih =>
    intro i hmem hadj hdist s hs
    simp only [buildRefsT, List.mem_cons] at hs
    rcases hs with rfl | hs
    · have ho : o ∈ objs := hmem o (by simp)
      constructor
      · intro r hr
        simp only [List.mem_map] at hr
        obtain ⟨p, hp, rfl⟩ := hr
        refine ⟨?_, ?_, ?_, ?_⟩
        · intro m hm; simp only [Option.some.injEq] at hm; subst hm; exact hwf.ge_base o ho p hp
        · intro m hm
          simp only at hm
          -- where does MaxOffset come from?
          have hfooter : ∀ m', Option.map (fun x => x.2.2.2)
              (if ti o = true then scanSegment (o.recs.map fun p => (⟨i, o.partition, p.1, p.2⟩ : Rec)) else none) = some m' →
              p.1 ≤ m' := by
            intro m' hm'
            cases hti : ti o with
            | false => simp [hti] at hm'
            | true =>
              simp only [hti, if_true, Option.map_eq_some_iff] at hm'
              obtain ⟨⟨a, b, c, d⟩, hscan, hd⟩ := hm'
              simp only at hd
              subst hd
              have := KafVerif.C36.scan_sound _ a b c d hscan ⟨i, o.partition, p.1, p.2⟩
                (List.mem_map.mpr ⟨p, hp, rfl⟩)
              exact this.2.2.2
          cases rest with
          | nil => exact hfooter m hm
          | cons n rest' =>
            simp only at hm
            split at hm
            · rename_i hsame
              split at hm
              · rename_i hpos
                simp only [Option.some.injEq] at hm
                subst hm
                have hn : n ∈ objs := hmem n (by simp)
                have hst : sameTP o n := ⟨hsame.1.symm, hsame.2.symm⟩
                have hle := objLe_same hadj.1 hst
                have hne := (List.pairwise_cons.mp hdist).1 n (by simp) hst
                have := hwf.lt_next o ho n hn hst (by omega) p hp
                show p.1 ≤ n.base - 1
                omega
              · exact hfooter m hm
            · exact hfooter m hm
        · intro m hm
          simp only at hm
          cases hti : ti o with
          | false => simp [hti] at hm
          | true =>
            simp only [hti, if_true, Option.map_eq_some_iff] at hm
            obtain ⟨⟨a, b, c, d⟩, hscan, hd⟩ := hm
            simp only at hd
            subst hd
            exact (KafVerif.C36.scan_sound _ a b c d hscan ⟨i, o.partition, p.1, p.2⟩
              (List.mem_map.mpr ⟨p, hp, rfl⟩)).1
        · intro m hm
          simp only at hm
          cases hti : ti o with
          | false => simp [hti] at hm
          | true =>
            simp only [hti, if_true, Option.map_eq_some_iff] at hm
            obtain ⟨⟨a, b, c, d⟩, hscan, hd⟩ := hm
            simp only at hd
            subst hd
            exact (KafVerif.C36.scan_sound _ a b c d hscan ⟨i, o.partition, p.1, p.2⟩
              (List.mem_map.mpr ⟨p, hp, rfl⟩)).2.1
      · intro r hr
        simp only [List.mem_map] at hr
        obtain ⟨p, _, rfl⟩ := hr
        rfl
    · have hadj' : Adj (fun a b => objLe a b = true) rest := by
        cases rest with
        | nil => trivial
        | cons n t => exact hadj.2
      exact ih (i + 1) (fun x hx => hmem x (List.mem_cons_of_mem _ hx)) hadj' (List.pairwise_cons.mp hdist).2 s hs


theorem buildRefs_eq_T (b : Bool) (l : List Obj) : ∀ i, buildRefs b l i = buildRefsT (fun _ => b) l i := by
  induction l with
  | nil => intro i; rfl
  | cons o rest ih =>
    intro i
    show _ :: buildRefs b rest (i + 1) = _ :: buildRefsT (fun _ => b) rest (i + 1)
    rw [ih (i + 1)] <;> rfl

theorem listCompleted_eq_T (objs : List Obj) (b : Bool) : listCompleted objs b = listCompletedT objs (fun _ => b) := by
  unfold listCompleted listCompletedT; exact buildRefs_eq_T b _ 0

/-- **C36 (listing under time-index faults).** For a well-formed S3 log and EVERY per-object outcome of the
`.kfst` footer read (time index off, footer missing, read error → `enrich` leaves the reference alone),
every segment reference `ListCompleted` returns carries sound statistics. -/
theorem _root_.KafVerif.C36.listing_sound_faults (objs : List Obj) (hwf : WellFormedObjs objs) (ti : Obj → Bool) :
    ∀ s ∈ listCompletedT objs ti, StatsSound s ∧ PartitionSound s := by
  unfold listCompletedT
  have hperm := sortObjs_perm (objs.filter (·.complete))
  apply buildRefsT_sound objs hwf ti
  · intro x hx
    exact (List.mem_filter.mp (hperm.mem_iff.mp hx)).1
  · exact sortObjs_adj _
  · have hsym : ∀ {x y : Obj}, (sameTP x y → x.base ≠ y.base) → (sameTP y x → y.base ≠ x.base) :=
      fun h hs e => h ⟨hs.1.symm, hs.2.symm⟩ e.symm
    exact (List.Perm.pairwise_iff hsym hperm).mpr (hwf.distinct.filter _)

/-- **C36 (all modelled faults, end to end).** Over the listing of any well-formed S3 log taken under any
time-index fault pattern, a query under any listing / Decode / cancellation fault oracle that completes
returns exactly the direct filtering of the listed segments' records. -/
theorem _root_.KafVerif.C36.select_ok_over_faulted_listing (objs : List Obj) (hwf : WellFormedObjs objs)
    (ti : Obj → Bool) (q : Query) (hl : 0 < q.limit) (lf : Bool) (fault : Nat → Bool) (rows : List Rec)
    (h : selectF q (listCompletedT objs ti) lf fault = some rows) : rows = direct q (listCompletedT objs ti) :=
  KafVerif.C36.select_ok_eq_direct q _ (fun s hs => (KafVerif.C36.listing_sound_faults objs hwf ti s hs).1)
    (fun s hs => (KafVerif.C36.listing_sound_faults objs hwf ti s hs).2) hl lf fault rows h

/-- the records a listing exposes do not depend on the time-index outcome: a time-index fault changes
statistics only, so the direct result is the same with and without it -/
theorem buildRefsT_recs (t1 t2 : Obj → Bool) (l : List Obj) : ∀ i,
    (buildRefsT t1 l i).map (fun s => (s.topic, s.recs)) = (buildRefsT t2 l i).map (fun s => (s.topic, s.recs)) := by
  induction l with
  | nil => intro i; rfl
  | cons o rest ih => intro i; simp only [buildRefsT, List.map_cons, ih]

example : (listCompletedT [⟨0, 0, 0, true, [(0, 10), (2, 11)], none⟩, ⟨0, 0, 3, true, [(3, 12)], none⟩]
    (fun o => o.base != 0)).map (fun s => (s.minOffset, s.maxOffset, s.minTs, s.maxTs)) =
    [(some 0, some 2, none, none), (some 3, some 3, some 12, some 12)] := by decide

end KafVerif.SqlFilter
