import KafVerif.Lemmas.KafkaRestoreRun
import KafVerif.Lemmas.KafkaRestoreBytes
import KafVerif.Lemmas.KafkaPitrTime
/-!
C08 — Point-in-time restore copies an exact, valid prefix or nothing.

Statement (properties.jsonl): a successful restore of a topic to time T produces, per partition,
records that are an offset-contiguous prefix of the source partition, cut at the final segment's
first record later than T; each restored record matches the source record at the same offset
byte for byte; each rewritten batch has a valid length, count and CRC; a failed restore leaves no
objects under the target topic unless deleting them also fails.
Quantifier: every source history and every S3 failure point during the copy.

Where the pieces are (all for EVERY batch / record list / store / fault set; no size bound):

* `Lemmas/KafkaPitr.lean` — byte level (`pkg/storage/recovery_exact.go`): `scanLoop_keeps_prefix`,
  `rewritten_batch_is_encoding`, `truncate_batch`, `collect_batches`,
  `restored_records_exact_prefix`; object level (`pkg/storage/recovery.go`): `restore_fail_clean`,
  `last_candidate_spec`;
* `Lemmas/KafkaRestoreObj.lean` — the copy loops with the fault oracle refine a fault-free
  specification of the uploads (`copySegs_ok`, `copyParts_ok`);
* `Lemmas/KafkaRestoreRun.lean` — listing/inspection, grouping and sorting, candidates, distinct
  target keys, `recoverTopic_ok`;
* `Lemmas/KafkaRestoreBytes.lean` — `buildRestorePlan` on a broker-written segment is `BuildSegment`
  of the kept batches (`plan_built`), shape of the kept batches (`collectBatches_shape`);
* `Lemmas/KafkaPitrTime.lean` — the restore time is a `time.Time` (nanoseconds): `cutoff_is_floor`,
  `candidate_after_is_floor`, `restored_prefix_cut_at_time`; the kept batches have true headers again
  (`collect_hdr_true`: the max timestamp of a cut batch is the maximum of the KEPT records, also when record
  timestamps go backwards inside the batch), hence `restore_again_identity`, `restore_again_earlier`;
* this file — **`restore_run_exact`**: the composition, one theorem about
  `RecoverTopicToTimestamp` over a whole multi-partition run (cutoff `T` in milliseconds; for a restore time
  `t : GoTime` the run is `recoverTopicAt … t … = recoverTopic … t.unixMilli …`, see `restore_run_exact_at`).
-/
set_option linter.unusedSimpArgs false
set_option linter.unusedVariables false
set_option linter.unusedSectionVars false
namespace KafVerif.Kafka

/-- **a source object the broker wrote**: `BuildSegment` (any index interval `iv`, creation time
`created`) of a non-empty list of well-formed batches with true header timestamps, stored under
the key that carries the base offset of its first batch; `L` bounds the body for the allocator -/
structure BrokerSeg (crc : Bytes → Nat) (L : Nat) (k : Key) (d : Bytes) (iv created : Int) (bs : List Batch) : Prop where
  ne : bs ≠ []
  wf : ∀ b ∈ bs, b.WfH
  hdr : ∀ b ∈ bs, b.HdrTrue
  size : (encBatches crc bs).length < 2 ^ 31
  fits : (encBatches crc bs).length ≤ L
  created64 : InI64 created
  built : ∃ a, buildSegment crc iv (bs.map (mkSB crc)) created = some a ∧ d = a.seg
  base : ∀ b0 t, bs = b0 :: t → b0.base = k.base

/-- **what the target holds for the last candidate** `xl` of partition `p`, when its source object is
the broker-written segment of the batches `bs` created at `created`; `fin` = the uploads for it.
With `kept = collectBatches T bs`:
* `kept` is the first `n` source batches unchanged, then possibly the next one cut to its records
  not later than T (`KeptShape`: last offset delta, max timestamp, count of the kept records;
  batch length and CRC recomputed — it is `encBatch` of that batch);
* the records of `kept` are a prefix of the source records, none later than T, and the source record
  after them (if any) is later than T;
* no record kept → nothing is uploaded for this segment;
* otherwise exactly one pair of objects, keyed by the source base offset: `BuildSegment` of `kept`
  with the source creation time — header, the kept batches back to back, footer — and both
  processors' decoders read exactly the kept records (offset, timestamp, key, value, headers) from it. -/
def FinalSeg (crc : Bytes → Nat) (T : Int) (p : Int) (xl : Src) (created : Int) (bs : List Batch) (fin : List Upload) : Prop :=
  KeptShape T bs (collectBatches T bs) ∧
  (∃ rest, bs.flatMap recordsOf = (collectBatches T bs).flatMap recordsOf ++ rest) ∧
  (∀ d ∈ (collectBatches T bs).flatMap recordsOf, d.ts ≤ T) ∧
  (∀ d rest, bs.flatMap recordsOf = (collectBatches T bs).flatMap recordsOf ++ d :: rest → d.ts > T) ∧
  (collectBatches T bs = [] → fin = []) ∧
  (collectBatches T bs ≠ [] → ∃ iv' a', buildSegment crc iv' ((collectBatches T bs).map (mkSB crc)) created = some a' ∧
    fin = [⟨⟨1, p, xl.key.base⟩, a'.seg, a'.idx⟩] ∧ a'.base = xl.key.base ∧
    a'.seg = segHeader xl.key.base a'.count created ++
      (encBatches crc (collectBatches T bs) ++ segFooter (crc (encBatches crc (collectBatches T bs))) a'.last) ∧
    ∀ lim, recSize * ((encBatches crc (collectBatches T bs)).length + 48) ≤ lim →
      decodeSegment (goMakeLim lim) cfgIceberg a'.seg = .ok ((collectBatches T bs).flatMap recordsOf) ∧
      decodeSegment (goMakeLim lim) cfgSql a'.seg = .ok ((collectBatches T bs).flatMap recordsOf))

/-- **the target objects of one selected partition** `g = (partition, its source segments sorted by
base offset)` after a successful run with result store `o`: with `xl` the last candidate,
* every segment before it has both source objects, and its target objects (same base offset) are
  byte-identical copies (`wholeUp`);
* `fin` (described by `FinalSeg`) is what was uploaded for `xl`;
* each of these is what a lookup in the result store returns, and the store holds no other object of
  the target topic for this partition. -/
def GroupExact (crc : Bytes → Nat) (L : Nat) (T : Int) (s : S3) (o : S3) (g : Int × List Src) : Prop :=
  ∃ xl fin, g.2[lastCandidate T g.2]? = some xl ∧
    (∀ x ∈ g.2.take (lastCandidate T g.2), (oget s.segs x.key).isSome ∧ (oget s.idxs x.key).isSome) ∧
    (∀ u ∈ (g.2.take (lastCandidate T g.2)).map (wholeUp s.segs s.idxs) ++ fin,
      oget o.segs u.key = some u.seg ∧ oget o.idxs u.key = some u.idx) ∧
    (∀ e, (e ∈ o.segs ∨ e ∈ o.idxs) → e.1.topic = 1 → e.1.part = g.1 →
      ∃ u ∈ (g.2.take (lastCandidate T g.2)).map (wholeUp s.segs s.idxs) ++ fin, e.1 = u.key) ∧
    (∀ d iv created bs, oget s.segs xl.key = some d → BrokerSeg crc L xl.key d iv created bs →
      FinalSeg crc T g.1 xl created bs fin)

/-! ### helper lemmas for the composition -/

theorem oget_unique {m : Objs} {k : Key} {v : Bytes} (hm : (k, v) ∈ m) (hu : ∀ v', (k, v') ∈ m → v' = v) :
    oget m k = some v := by
  cases h : oget m k with
  | none =>
    unfold oget at h
    simp only [Option.map_eq_none_iff, List.find?_eq_none, decide_eq_true_eq] at h
    exact absurd rfl (h (k, v) hm)
  | some v' => rw [hu v' (oget_mem h)]

theorem keys_unique {ups : List Upload} (hnd : (ups.map (·.key)).Nodup) {u u' : Upload} (hu : u ∈ ups) (hu' : u' ∈ ups)
    (hk : u'.key = u.key) : u' = u := by
  induction ups with
  | nil => simp at hu
  | cons a t ih =>
    simp only [List.map_cons, List.nodup_cons] at hnd
    simp only [List.mem_cons] at hu hu'
    rcases hu with rfl | hu <;> rcases hu' with rfl | hu'
    · rfl
    · exact absurd (List.mem_map.mpr ⟨u', hu', hk⟩) hnd.1
    · exact absurd (List.mem_map.mpr ⟨u, hu, hk.symm⟩) hnd.1
    · exact ih hnd.2 hu hu'

theorem applied_oget {ups : List Upload} {st : CopySt} (ha : Applied ups st) (hnd : (ups.map (·.key)).Nodup)
    {u : Upload} (hu : u ∈ ups) : oget st.s3.segs u.key = some u.seg ∧ oget st.s3.idxs u.key = some u.idx := by
  constructor
  · refine oget_unique (ha.segsIn u hu) ?_
    intro v' hv'
    obtain ⟨u', hu', he⟩ := ha.segsOnly _ hv' (ha.tgt u hu)
    simp only [Prod.mk.injEq] at he
    rw [he.2, keys_unique hnd hu hu' he.1.symm]
  · refine oget_unique (ha.idxsIn u hu) ?_
    intro v' hv'
    obtain ⟨u', hu', he⟩ := ha.idxsOnly _ hv' (ha.tgt u hu)
    simp only [Prod.mk.injEq] at he
    rw [he.2, keys_unique hnd hu hu' he.1.symm]

theorem groupParts_inj {srcs : List Src} {g g' : Int × List Src} (hg : g ∈ groupParts srcs) (hg' : g' ∈ groupParts srcs)
    (h : g.1 = g'.1) : g = g' := by
  unfold groupParts at hg hg'
  obtain ⟨p, _, rfl⟩ := List.mem_map.mp hg
  obtain ⟨p', _, rfl⟩ := List.mem_map.mp hg'
  simp only at h
  subst h; rfl

theorem group_ne {srcs : List Src} {g : Int × List Src} (hg : g ∈ groupParts srcs) : g.2 ≠ [] := by
  obtain ⟨hp, hperm⟩ := mem_groupParts hg
  unfold partsOf at hp
  have h1 := ((sortBy_perm _ _).mem_iff).mp hp
  rw [List.mem_eraseDups] at h1
  obtain ⟨x, hx, hxp⟩ := List.mem_map.mp h1
  have : x ∈ srcs.filter (fun y => y.key.part = g.1) := by simp [List.mem_filter, hx, hxp]
  have := (hperm.mem_iff).mpr this
  intro he; rw [he] at this; simp at this


theorem srcOf_created {k : Key} {d : Bytes} {x : Src} (h : srcOf k d = some x) :
    parseSegmentHeaderCreatedAt (d.take 32) = some x.created := by
  unfold srcOf at h
  split at h
  · simp at h
  · split at h
    · simp at h
    · rename_i c hc
      split at h
      · simp at h
      · simp only [Option.some.injEq] at h; rw [hc, ← h]

variable {mk : Alloc} {L : Nat}

/-- the plan for a last candidate whose source object the broker wrote -/
theorem last_plan (hmk : Adm mk L) (crc : Bytes → Nat) (T : Int) (s : S3) (hnd : (s.segs.map (·.1)).Nodup)
    (x : Src) (d' : Bytes) (hx : (x.key, d') ∈ s.segs) (hso : srcOf x.key d' = some x)
    (plan : Plan) (hp : planOf crc mk T s.segs s.idxs x true = .ok plan)
    (d : Bytes) (iv created : Int) (bs : List Batch) (hd : oget s.segs x.key = some d) (B : BrokerSeg crc L x.key d iv created bs) :
    x.created = created ∧
    (collectBatches T bs = [] → plan.keep = false) ∧
    (collectBatches T bs ≠ [] → ∃ (pi : Int × List (Int × Int)) (a' : Artifact),
      buildSegment crc pi.1 ((collectBatches T bs).map (mkSB crc)) created = some a' ∧
      plan = ⟨a'.seg, a'.idx, a'.base, a'.last, true⟩ ∧ a'.base = x.key.base ∧
      a'.seg = segHeader x.key.base a'.count created ++
        (encBatches crc (collectBatches T bs) ++ segFooter (crc (encBatches crc (collectBatches T bs))) a'.last)) := by
  obtain ⟨a, hb, rfl⟩ := B.built
  have hdd : d' = a.seg := by
    have := oget_of_mem_nodup hnd hx
    rw [hd] at this
    simp only [Option.some.injEq] at this
    exact this.symm
  subst hdd
  have hcr : x.created = created := by
    have h1 := srcOf_created hso
    rw [built_created crc iv created bs a B.ne B.created64 hb] at h1
    simp only [Option.some.injEq] at h1
    exact h1.symm
  unfold planOf at hp
  rw [hd] at hp
  simp only at hp
  cases hi : oget s.idxs x.key with
  | none => simp [hi] at hp
  | some ib =>
    simp only [hi, if_true] at hp
    rw [hcr] at hp
    obtain ⟨p0, p1⟩ := plan_built hmk crc iv created T created bs a ib B.ne B.wf B.size B.fits hb plan hp
    refine ⟨hcr, p0, ?_⟩
    intro hk
    obtain ⟨pi, a', _, hb', hplan⟩ := p1 hk
    cases hc : collectBatches T bs with
    | nil => exact absurd hc hk
    | cons k0 kt =>
      obtain ⟨b0, t, hbs, hk0⟩ := collectBatches_head crc T bs k0 kt hc
      obtain ⟨q1, _, q3⟩ := built_kept crc pi.1 created _ k0 kt hc a' hb'
      have hbase : a'.base = x.key.base := by rw [q1, hk0, B.base b0 t hbs]
      refine ⟨pi, a', by rw [← hc]; exact hb', hplan, hbase, ?_⟩
      rw [← hc, q3, ← q1, hbase]

variable {crc : Bytes → Nat} {T : Int} {segs idxs : Objs}

/-- the uploads for the candidates of a group lie in its partition -/
theorem upsg_part {srcs : List Src} {g : Int × List Src} (hg : g ∈ groupParts srcs) {upsg : List Upload}
    (h : specSegs crc mk T segs idxs (g.2.take (lastCandidate T g.2 + 1)) = some upsg) {u : Upload} (hu : u ∈ upsg) :
    u.key.part = g.1 := by
  have hne := group_ne hg
  rw [cands_split g.2 hne] at h
  obtain ⟨_, plan, _, he⟩ := specSegs_snoc _ _ _ h
  rw [he] at hu
  simp only [List.mem_append, List.mem_map] at hu
  rcases hu with ⟨x, hx, rfl⟩ | hu
  · exact (mem_group_mem hg (List.mem_of_mem_take hx)).2
  · unfold finalUp at hu
    split at hu
    · simp only [List.mem_singleton] at hu
      rw [hu]
      exact (mem_group_mem hg (List.getElem_mem _)).2
    · simp at hu

/-- **C08, the composition: a whole multi-partition run of `RecoverTopicToTimestamp`.**
For every checksum function, allocator admitting `L` bytes, cutoff `T`, partition filter, fault set
and store `s` with an empty target topic, whose object keys are distinct and whose source-topic
segment objects the broker wrote (`BrokerSeg`):

*success* — with `srcs` the descriptors `inspectSourceSegment` reads from the listed source objects
(key, header creation time, footer last offset), grouped by selected partition and sorted by base
offset (`groupParts (selSrcs allowed srcs)`): every object of the target topic lies in a selected
partition, and for every selected partition `GroupExact` holds — the target objects are exactly the
byte-identical copies of the segments before the last candidate plus (`FinalSeg`) the truncated
final one: `BuildSegment` of the whole batches and the one cut batch with records ≤ T, same base
offset and creation time, whose decodable records are exactly the source records up to the first
one later than T (same offsets, keys, values, headers), rewritten header fields included;

*failure* — if the run does not succeed and no rollback delete failed, the target topic is empty;

*always* — the objects outside the target topic are exactly what they were. -/
theorem _root_.KafVerif.C08.restore_run_exact (crc : Bytes → Nat) (mk : Alloc) (L : Nat) (hmk : Adm mk L) (T : Int)
    (allowed : List Int) (s : S3) (h1 : TargetFree s.segs) (h2 : TargetFree s.idxs)
    (hnd : (s.segs.map (·.1)).Nodup)
    (hsrc : ∀ e ∈ s.segs, e.1.topic = 0 → ∃ iv created bs, BrokerSeg crc L e.1 e.2 iv created bs) :
    (∀ sums, (recoverTopic crc mk T allowed s).res = .ok sums →
      ∃ srcs : List Src,
        srcs.map some = (s.segs.filter (fun e => e.1.topic = 0)).map (fun e => srcOf e.1 e.2) ∧
        (∀ e, (e ∈ (recoverTopic crc mk T allowed s).s3.segs ∨ e ∈ (recoverTopic crc mk T allowed s).s3.idxs) →
          e.1.topic = 1 → ∃ g ∈ groupParts (selSrcs allowed srcs), e.1.part = g.1) ∧
        ∀ g ∈ groupParts (selSrcs allowed srcs), GroupExact crc L T s (recoverTopic crc mk T allowed s).s3 g) ∧
    ((∀ sums, (recoverTopic crc mk T allowed s).res ≠ .ok sums) →
      (recoverTopic crc mk T allowed s).delFailed = false →
      TargetFree (recoverTopic crc mk T allowed s).s3.segs ∧ TargetFree (recoverTopic crc mk T allowed s).s3.idxs) ∧
    ((recoverTopic crc mk T allowed s).s3.segs.filter (fun e => !isTgt e) = s.segs.filter (fun e => !isTgt e) ∧
     (recoverTopic crc mk T allowed s).s3.idxs.filter (fun e => !isTgt e) = s.idxs.filter (fun e => !isTgt e)) := by
  refine ⟨?_, (recoverTopic_clean crc mk T allowed s h1 h2).2, (recoverTopic_clean crc mk T allowed s h1 h2).1⟩
  intro sums hok
  obtain ⟨srcs, ups, hsp, hspec, happ⟩ := recoverTopic_ok crc mk T allowed s sums h1 h2 hok
  generalize (recoverTopic crc mk T allowed s).s3 = o at happ ⊢
  have hsrcs : ∀ x ∈ srcs, x.key.topic = 0 ∧ ∃ d, (x.key, d) ∈ s.segs ∧ srcOf x.key d = some x := by
    intro x hx
    obtain ⟨e, he, hso⟩ := srcs_mem hsp hx
    have hk := srcOf_key hso
    simp only [List.mem_filter, decide_eq_true_eq] at he
    exact ⟨by rw [hk]; exact he.2, e.2, by rw [hk]; exact he.1, by rw [hk]; exact hso⟩
  have hkeys : (srcs.map (·.key)).Nodup := by
    rw [srcs_keys hsp]
    exact List.Nodup.sublist (List.filter_sublist.map _) hnd
  have hselsub := selSrcs_sublist allowed srcs
  have hselkeys : ((selSrcs allowed srcs).map (·.key)).Nodup := List.Nodup.sublist (hselsub.map _) hkeys
  have hseltop : ∀ x ∈ selSrcs allowed srcs, x.key.topic = 0 := fun x hx => (hsrcs x (hselsub.subset hx)).1
  have hbase : ∀ g ∈ groupParts (selSrcs allowed srcs), BaseOK crc mk T s.segs s.idxs g.2 := by
    intro g hg hne plan hp hk
    have hxl : g.2[lastCandidate T g.2]'(lastCandidate_lt T g.2 hne) ∈ srcs :=
      hselsub.subset (mem_group_mem hg (List.getElem_mem _)).1
    obtain ⟨htop, d', hd', hso⟩ := hsrcs _ hxl
    obtain ⟨iv, created, bs, B⟩ := hsrc _ hd' htop
    obtain ⟨_, hk0, hk1⟩ := last_plan hmk crc T s hnd _ d' hd' hso plan hp d' iv created bs (oget_of_mem_nodup hnd hd') B
    by_cases hkept : collectBatches T bs = []
    · rw [hk0 hkept] at hk; simp at hk
    · obtain ⟨pi, a', _, hplan, hb, _⟩ := hk1 hkept
      rw [hplan]; exact hb
  have hndu : (ups.map (·.key)).Nodup :=
    List.Nodup.sublist (specParts_keys _ _ hbase hspec) (group_keys_nodup _ hselkeys hseltop)
  have ha := happ hndu
  have hentry : ∀ e, (e ∈ o.segs ∨ e ∈ o.idxs) → e.1.topic = 1 → ∃ u ∈ ups, e.1 = u.key := by
    intro e he ht
    rcases he with he | he
    · obtain ⟨u, hu, rfl⟩ := ha.segsOnly e he ht; exact ⟨u, hu, rfl⟩
    · obtain ⟨u, hu, rfl⟩ := ha.idxsOnly e he ht; exact ⟨u, hu, rfl⟩
  refine ⟨srcs, hsp, ?_, ?_⟩
  · intro e he ht
    obtain ⟨u, hu, hek⟩ := hentry e he ht
    obtain ⟨g, hg, upsg, hsg, hu'⟩ := (specParts_group _ _ hspec).2 u hu
    exact ⟨g, hg, by rw [hek]; exact upsg_part hg hsg hu'⟩
  · intro g hg
    have hne := group_ne hg
    obtain ⟨upsg, hsg, hsub⟩ := (specParts_group _ _ hspec).1 g hg
    have hsg' := hsg
    rw [cands_split g.2 hne] at hsg'
    obtain ⟨hpre, plan, hp, hupsg⟩ := specSegs_snoc _ _ _ hsg'
    refine ⟨g.2[lastCandidate T g.2]'(lastCandidate_lt T g.2 hne),
      finalUp (g.2[lastCandidate T g.2]'(lastCandidate_lt T g.2 hne)) plan,
      List.getElem?_eq_getElem _, hpre, ?_, ?_, ?_⟩
    · intro u hu
      rw [← hupsg] at hu
      exact applied_oget ha hndu (hsub u hu)
    · intro e he ht hpart
      obtain ⟨u, hu, hek⟩ := hentry e he ht
      obtain ⟨g', hg', upsg', hsg2, hu'⟩ := (specParts_group _ _ hspec).2 u hu
      have hp' := upsg_part hg' hsg2 hu'
      have hgg : g' = g := groupParts_inj hg' hg (by rw [← hp', ← hek, hpart])
      subst hgg
      rw [hsg] at hsg2
      simp only [Option.some.injEq] at hsg2
      subst hsg2
      exact ⟨u, by rw [← hupsg]; exact hu', hek⟩
    · intro d iv created bs hd B
      have hxl : g.2[lastCandidate T g.2]'(lastCandidate_lt T g.2 hne) ∈ srcs :=
        hselsub.subset (mem_group_mem hg (List.getElem_mem _)).1
      obtain ⟨_, d', hd', hso⟩ := hsrcs _ hxl
      obtain ⟨_, hk0, hk1⟩ := last_plan hmk crc T s hnd _ d' hd' hso plan hp d iv created bs hd B
      have hpre := KafVerif.C08.restored_records_exact_prefix T bs B.hdr
      refine ⟨collectBatches_shape T bs, hpre.1, hpre.2.1, hpre.2.2, ?_, ?_⟩
      · intro hkept
        unfold finalUp
        simp [hk0 hkept]
      · intro hkept
        obtain ⟨pi, a', hb', hplan, hb, hseg⟩ := hk1 hkept
        have hwf := collectBatches_wf crc T bs (fun b hb => (B.wf b hb).1)
        refine ⟨pi.1, a', hb', ?_, hb, hseg, ?_⟩
        · unfold finalUp
          rw [hplan]
          simp only [if_true, hb, (mem_group_mem hg (List.getElem_mem _)).2]
        · intro lim hl
          obtain ⟨a'', e1, e2, e3⟩ := KafVerif.C07.decodeSegment_buildSegment crc pi.1 created (collectBatches T bs) hkept
            hwf.1 (by have := hwf.2; have := B.size; omega) lim hl
          rw [hb'] at e1
          simp only [Option.some.injEq] at e1
          subst e1
          exact ⟨e2, e3⟩

/-- **the run for a restore time with nanosecond resolution** (`cfg.RestoreTo = t`, any sub-millisecond fraction,
before or after 1970): `restore_run_exact` holds with `T = t.UnixMilli()`, the candidate index used in `GroupExact` is
the one the code computes with `CreatedAt.After(RestoreTo)` on `time.Time`s, and in `FinalSeg` "not later than T" /
"later than T" mean not later / later than the instant `t` itself (`cutoff_is_floor`). -/
theorem _root_.KafVerif.C08.restore_run_exact_at (crc : Bytes → Nat) (mk : Alloc) (t : GoTime) (hv : t.Valid)
    (allowed : List Int) (s : S3) :
    recoverTopicAt crc mk t allowed s = recoverTopic crc mk t.unixMilli allowed s ∧
    (∀ segs : List Src, lastCandidateAt t segs = lastCandidate t.unixMilli segs) ∧
    (∀ ts : Int, (ts ≤ t.unixMilli ↔ ts * 1000000 ≤ t.unixNano) ∧ (ts > t.unixMilli ↔ ts * 1000000 > t.unixNano)) := by
  refine ⟨rfl, lastCandidateAt_eq t hv, fun ts => ?_⟩
  have := KafVerif.C08.cutoff_is_floor t hv ts
  omega

/-! ### non-vacuity of `restore_run_exact`: a store with one broker-written segment of three records
(timestamps 1000, 1050, 1200), restored to T = 1100 — the run succeeds, cuts inside the batch, and the
hypotheses of the theorem hold -/

def exCrc : Bytes → Nat := fun _ => 7
def exArt : Artifact := (buildSegment exCrc 1 [mkSB exCrc exB] 1700000000123).getD ⟨0, 0, 0, [], [], []⟩
def exKey : Key := ⟨0, 0, 10⟩
def exStore : S3 := ⟨[(exKey, exArt.seg)], [(exKey, exArt.idx)], 0, []⟩

set_option maxRecDepth 100000 in
theorem exArt_built : buildSegment exCrc 1 ([exB].map (mkSB exCrc)) 1700000000123 = some exArt := by decide

theorem exB_wfh : exB.WfH := by
  refine ⟨⟨by decide, by decide, by decide, by decide, by decide, ?_⟩, by decide, by decide⟩
  intro r hr
  simp only [exB, List.mem_cons, List.not_mem_nil, or_false] at hr
  rcases hr with rfl | rfl | rfl <;>
    exact ⟨by decide, by decide, by decide, by decide, by decide, by intro h hh; simp [exR0, exR1, exR2] at hh, by decide⟩

theorem exB_hdr : exB.HdrTrue :=
  ⟨⟨exR0, [exR1, exR2], rfl, by decide⟩, by decide, ⟨exR2, by decide, by decide⟩⟩

theorem exBroker : BrokerSeg exCrc AllocMax exKey exArt.seg 1 1700000000123 [exB] where
  ne := by simp
  wf := by intro b hb; simp only [List.mem_singleton] at hb; subst hb; exact exB_wfh
  hdr := by intro b hb; simp only [List.mem_singleton] at hb; subst hb; exact exB_hdr
  size := by decide
  fits := by decide
  created64 := by decide
  built := ⟨exArt, exArt_built, rfl⟩
  base := by intro b0 t h; simp only [List.cons.injEq] at h; rw [← h.1]; rfl

set_option maxRecDepth 100000 in
theorem exRun_ok : (recoverTopic exCrc (goMakeLim AllocMax) 1100 [] exStore).res = .ok [⟨0, 1, 11⟩] := by decide

example : ∃ srcs : List Src,
    srcs.map some = (exStore.segs.filter (fun e => e.1.topic = 0)).map (fun e => srcOf e.1 e.2) ∧
    (∀ e, (e ∈ (recoverTopic exCrc (goMakeLim AllocMax) 1100 [] exStore).s3.segs ∨
        e ∈ (recoverTopic exCrc (goMakeLim AllocMax) 1100 [] exStore).s3.idxs) →
      e.1.topic = 1 → ∃ g ∈ groupParts (selSrcs [] srcs), e.1.part = g.1) ∧
    ∀ g ∈ groupParts (selSrcs [] srcs),
      GroupExact exCrc AllocMax 1100 exStore (recoverTopic exCrc (goMakeLim AllocMax) 1100 [] exStore).s3 g :=
  (KafVerif.C08.restore_run_exact exCrc (goMakeLim AllocMax) AllocMax (adm_goMakeLim (Nat.le_refl _)) 1100 [] exStore
    (by intro e he; simp [exStore] at he; subst he; decide)
    (by intro e he; simp [exStore] at he; subst he; decide)
    (by simp [exStore])
    (by intro e he _; simp [exStore] at he; subst he; exact ⟨1, 1700000000123, [exB], exBroker⟩)).1 _ exRun_ok

/-- the cut falls inside the batch: two of the three records are kept, the third is later than T -/
example : (collectBatches 1100 [exB]).flatMap recordsOf = (recordsOf exB).take 2 ∧ collectBatches 1100 [exB] ≠ [] := by decide
set_option maxRecDepth 100000 in
example : (oget (recoverTopic exCrc (goMakeLim AllocMax) 1100 [] exStore).s3.segs ⟨1, 0, 10⟩).isSome = true := by decide
set_option maxRecDepth 100000 in
/-- a fault at the index upload (S3 call 7): the run fails, every rollback delete succeeds, the target is empty again -/
example : (recoverTopic exCrc (goMakeLim AllocMax) 1100 [] { exStore with fails := [7] }).res = .err ∧
    (recoverTopic exCrc (goMakeLim AllocMax) 1100 [] { exStore with fails := [7] }).delFailed = false ∧
    (recoverTopic exCrc (goMakeLim AllocMax) 1100 [] { exStore with fails := [7] }).s3.segs.length = 1 ∧
    (recoverTopic exCrc (goMakeLim AllocMax) 1100 [] { exStore with fails := [7] }).s3.calls = 10 := by decide

/-! ### the C07 round trip covers several uncompressed batches per segment with non-zero base offsets

`KafVerif.C07.decodeSegment_buildSegment` is stated for every non-empty `List Batch` whose members are `Batch.Wf` (any int64 base
offset, attributes with compression bits 0); instance: two batches with base offsets 10 and 13. -/

def exB2 : Batch := { base := 13, lastOffsetDelta := 0, firstTs := 1300, maxTs := 1300, recs := [exR0] }

set_option maxRecDepth 100000 in
example : ∃ a, buildSegment exCrc 1 ([exB, exB2].map (mkSB exCrc)) 1700000000123 = some a ∧
    decodeSegment (goMakeLim AllocMax) cfgIceberg a.seg = .ok (recordsOf exB ++ recordsOf exB2) ∧
    decodeSegment (goMakeLim AllocMax) cfgSql a.seg = .ok (recordsOf exB ++ recordsOf exB2) := by
  have hw : ∀ b ∈ [exB, exB2], b.Wf := by
    intro b hb
    simp only [List.mem_cons, List.not_mem_nil, or_false] at hb
    rcases hb with rfl | rfl
    · exact exB_wfh.1
    · refine ⟨by decide, by decide, by decide, by decide, by decide, ?_⟩
      intro r hr
      simp only [exB2, List.mem_singleton] at hr
      subst hr
      exact ⟨by decide, by decide, by decide, by decide, by decide, by intro h hh; simp [exR0] at hh, by decide⟩
  have := KafVerif.C07.decodeSegment_buildSegment exCrc 1 1700000000123 [exB, exB2] (by simp) hw (by decide) AllocMax (by decide)
  simpa using this

end KafVerif.Kafka
