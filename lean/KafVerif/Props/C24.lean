import KafVerif.Model.AclGate
import KafVerif.Model.AclSession
import KafVerif.Model.AclConn
import KafVerif.Gen.C24Guards
/-!
C24 — With ACLs on, unauthorized requests change nothing and leak nothing.

`Gen/C24Guards.lean` is regenerated (go/ast over `handler.Handle`, following `h.handle*` one level) on every
run: per `case *kmsg.XRequest` arm, the `h.allow*` calls, the effectful calls and the reads of protected data,
in source order.  `AclGate.spec` is the hand-written reading of the property (required permission per request
type).  Theorems:
* `guards_complete`          (decide over the regenerated table) every arm is classified and guarded as required,
                             and its first guard precedes every effect/read of the arm
* `guarded_arms_have_gate`   soundness: a complete table gives every permission-requiring arm a real gate
* `denied_is_noop`           for EVERY effect, store and request: if the authorizer denies every item, the store
                             is unchanged and every item is answered "denied" (no data)
* `whole_denied_noop`        whole-request gates: one denied item rejects the whole request, store unchanged
* `perItem_denied_untouched` per-item gates: a resource whose items are all denied keeps its value
* `perItem_eq_allowed_only`  … and the store ends up exactly as if only the allowed items had been sent
* `perItem_deny_bits`        … and exactly the denied items are answered "denied"
* `ungated_violates`         the pre-fix Metadata arm (no gate in front of the auto-create) violates the property

Session model (`Model/AclSession.lean`: ONE handler, many requests, several principals):
* `decision_depends_only_on_request`  for EVERY handler state whose authorizer was built from `cfg` (whatever the
                             denial log / counters hold) and EVERY history of earlier requests from any principals,
                             the decision of the next request is `Acl.allows cfg (principal, action, resource, name)`
* `session_decisions_eq`     the decisions of a whole session are `map (allows cfg)` of its requests
* `decision_history_independent`  two different histories give the same decision for the same request
* `session_denied_noop`      gate behind the session: after ANY history, a request all of whose items `allows cfg`
                             denies leaves the store unchanged and is answered `denied` item by item
* `session_perItem_denied_untouched`  … per-item gate: a resource whose items `allows cfg` denies keeps its value
* `memoised_decisions_violate`  a handler that memoises decisions under `action|resource|principal|name` does NOT
                             have the property (alice + `orders-x|secret`, then `alice|orders-x` + `secret`)

Connection model (`Model/AclConn.lean`: `buildConnContextFunc`, `principalFromContext`, one handler, several connections):
* `principal_depends_only_on_request_and_conn`  for EVERY broker configuration (principal source, PROXY protocol), EVERY
                             connection the broker serves and EVERY history of client ids of earlier requests on it, the
                             principal of the next request is `principalSpec cfg attrs clientId` — a function of the
                             configuration, the connection's immutable attributes and THAT request's client id
* `principal_history_independent`  two histories on a connection give the same principal for the same client id
* `conn_decision_depends_only_on_request_and_conn`  one handler, several connections, any interleaved history: the
                             decision of a request is `Acl.allows cfg` for `principalSpec` of ITS connection and client id
* `conn_session_denied_noop` … and a request whose items that principal may not touch leaves the store unchanged
* `sticky_principal_violates`  writing the derived principal back into the connection's ConnContext ("resolve once per
                             connection") does NOT have the property (PROXY protocol on, source client_id)
-/
namespace KafVerif.AclGate

theorem find_map_other (eff : Nat → Nat) (n m : Nat) (h : n ≠ m) (t : Store) :
    ((t.map fun e => if e.1 == m then (e.1, eff e.2) else e).find? (fun x => x.1 == n)).map (·.2)
      = (t.find? (fun x => x.1 == n)).map (·.2) := by
  induction t with
  | nil => rfl
  | cons a t ih =>
    simp only [List.map_cons, List.find?_cons]
    by_cases ham : a.1 = m
    · have h1 : (a.1 == m) = true := by simp [ham]
      have h2 : (a.1 == n) = false := by simp [ham]; omega
      simp only [h1, if_true, h2]
      exact ih
    · have h1 : (a.1 == m) = false := by simp [ham]
      simp only [h1, Bool.false_eq_true, if_false]
      by_cases han : (a.1 == n) = true
      · simp [han]
      · have : (a.1 == n) = false := by simpa using han
        simp only [this]
        exact ih

theorem lookup_apply_other (eff : Nat → Nat) (st : Store) (n m : Nat) (h : n ≠ m) :
    lookup (apply eff st m) n = lookup st n := by
  unfold apply
  cases hl : lookup st m with
  | some v =>
    simp only
    unfold lookup
    exact find_map_other eff n m h st
  | none =>
    simp only
    unfold lookup
    rw [List.find?_append]
    have : List.find? (fun x => x.1 == n) [(m, eff 0)] = none := by
      have hmn : (m == n) = false := by simp; omega
      simp [List.find?_cons, hmn]
    rw [this]; simp

end KafVerif.AclGate

namespace KafVerif.C24
open KafVerif KafVerif.AclGate

/-- OBLIGATION over the regenerated guard table. -/
theorem guards_complete : guardsComplete KafVerif.Gen.C24.arms = true := by decide

theorem spec_keys_unique : ∀ n ∈ spec, ∀ n' ∈ spec, n.key = n'.key → n = n' := by decide

/-- Soundness of the table check: every arm whose request type requires a permission has a gate (`granOf ≠ none`)
of the required resource kind and action. -/
theorem guarded_arms_have_gate (arms : List Arm) (h : guardsComplete arms = true) :
    ∀ a ∈ arms, ∀ n ∈ spec, n.key = a.key → n.res ≠ 0 →
      granOf a ≠ .none ∧ ∃ g, firstGuard a = some g ∧ g.res = n.res ∧ g.action ∈ n.actions ∧ g.inCond = true := by
  intro a ha n hn hk hres
  unfold guardsComplete at h
  have h1 := (Bool.and_eq_true _ _).mp h
  have harm := List.all_eq_true.mp h1.1 a ha
  obtain ⟨n', hn', hok⟩ := List.any_eq_true.mp harm
  simp only [Bool.and_eq_true, beq_iff_eq] at hok
  have : n' = n := spec_keys_unique n' hn' n hn (by rw [hok.1, hk])
  subst this
  have hok2 := hok.2
  unfold armOk at hok2
  simp only [hres, if_false] at hok2
  cases hg : firstGuard a with
  | none => rw [hg] at hok2; simp at hok2
  | some g =>
    rw [hg] at hok2
    simp only [Bool.and_eq_true, beq_iff_eq, decide_eq_true_eq] at hok2
    refine ⟨?_, g, rfl, hok2.1.1.1, by simpa using hok2.1.1.2, hok2.1.2⟩
    unfold granOf; rw [hg]
    by_cases hl : g.inLoop = true <;> simp [hl]

theorem serveDenied (eff : Nat → Nat) (st : Store) (items : List Item) (h : ∀ it ∈ items, it.allowed = false) :
    servePerItem eff st items = (st, items.map fun _ => .denied) := by
  induction items with
  | nil => rfl
  | cons it rest ih =>
    have h0 : it.allowed = false := h it (by simp)
    simp only [servePerItem, h0]
    rw [ih (fun x hx => h x (by simp [hx]))]
    simp

/-- (1) Denied is a no-op: whatever the request's effect `eff`, the store and the items, if the gate is present
(`g ≠ none`) and the authorizer denies every item, the store is unchanged and every item is answered `denied`
(an authorization error without data). -/
theorem denied_is_noop (g : Gran) (eff : Nat → Nat) (st : Store) (items : List Item)
    (hg : g ≠ .none) (hne : items ≠ []) (h : ∀ it ∈ items, it.allowed = false) :
    handle g eff st items = (st, items.map fun _ => .denied) := by
  cases g with
  | none => exact absurd rfl hg
  | whole =>
    unfold handle
    have : items.all (·.allowed) = false := by
      cases items with
      | nil => exact absurd rfl hne
      | cons a t => simp [h a (by simp)]
    simp [this]
  | perItem => exact serveDenied eff st items h

/-- (2) Whole-request gates: ONE denied item is enough — nothing changes, everything is answered `denied`. -/
theorem whole_denied_noop (eff : Nat → Nat) (st : Store) (items : List Item)
    (h : ∃ it ∈ items, it.allowed = false) :
    handle .whole eff st items = (st, items.map fun _ => .denied) := by
  obtain ⟨it, hit, ha⟩ := h
  unfold handle
  have : items.all (·.allowed) = false := by
    rw [List.all_eq_false]; exact ⟨it, hit, by simp [ha]⟩
  simp [this]

/-- (3) Per-item gates: a resource all of whose items are denied keeps its value, whatever the allowed items do. -/
theorem perItem_denied_untouched (eff : Nat → Nat) (st : Store) (items : List Item) (n : Nat)
    (h : ∀ it ∈ items, it.name = n → it.allowed = false) :
    lookup (handle .perItem eff st items).1 n = lookup st n := by
  unfold handle
  simp only
  induction items generalizing st with
  | nil => rfl
  | cons it rest ih =>
    unfold servePerItem
    by_cases ha : it.allowed
    · have hne : n ≠ it.name := by
        intro heq
        have := h it (by simp) heq.symm
        rw [ha] at this; exact absurd this (by simp)
      simp only [ha, if_true]
      rw [ih (apply eff st it.name) (fun x hx => h x (by simp [hx]))]
      exact lookup_apply_other eff st n it.name hne
    · simp only [ha]
      exact ih st (fun x hx => h x (by simp [hx]))

/-- (4) … and the final store is exactly what the allowed items alone produce. -/
theorem perItem_eq_allowed_only (eff : Nat → Nat) (st : Store) (items : List Item) :
    (handle .perItem eff st items).1 = (handle .none eff st (items.filter (·.allowed))).1 := by
  unfold handle
  simp only
  induction items generalizing st with
  | nil => rfl
  | cons it rest ih =>
    unfold servePerItem
    by_cases ha : it.allowed
    · simp only [ha, if_true, List.filter_cons]
      unfold serveAll
      simp only
      exact ih (apply eff st it.name)
    · simp only [ha, List.filter_cons]
      exact ih st

/-- (5) … and exactly the denied items are answered `denied`. -/
theorem perItem_deny_bits (eff : Nat → Nat) (st : Store) (items : List Item) :
    denyBits (handle .perItem eff st items).2 = items.map fun it => !it.allowed := by
  unfold handle denyBits
  simp only
  induction items generalizing st with
  | nil => rfl
  | cons it rest ih =>
    unfold servePerItem
    by_cases ha : it.allowed
    · simp only [ha, if_true, List.map_cons]
      rw [ih (apply eff st it.name)]
      simp
    · have hf : it.allowed = false := by simpa using ha
      simp only [hf, Bool.false_eq_true, if_false, List.map_cons]
      rw [ih st]
      simp

/-- (6) The Metadata arm before the fix had no gate in front of `ensureTopic`: a principal without any
permission changes the store. -/
theorem ungated_violates :
    ∃ (eff : Nat → Nat) (st : Store) (items : List Item),
      (∀ it ∈ items, it.allowed = false) ∧ (handle .none eff st items).1 ≠ st :=
  ⟨(· + 1), [], [⟨7, false⟩], by decide, by decide⟩

/-! non-vacuity -/
example : handle .perItem (· + 1) [(1, 5)] [⟨1, false⟩, ⟨2, true⟩] = ([(1, 5), (2, 1)], [.denied, .served (some 1)]) := by decide
example : handle .whole (· + 1) [(1, 5)] [⟨1, false⟩, ⟨2, true⟩] = ([(1, 5)], [.denied, .denied]) := by decide
example : granOf ⟨0, [⟨0, 1, 1, true, true⟩, ⟨1, 0, 0, true, false⟩]⟩ = .perItem := by decide
example : guardsComplete [⟨3, [⟨1, 0, 0, true, false⟩]⟩] = false := by decide

/-! ## sessions: one handler, many requests, several principals -/
end KafVerif.C24

namespace KafVerif.AclSession
open KafVerif KafVerif.Acl KafVerif.AclGate

theorem logAuthzDenied_authorizer (st : State) (r : Acl.Req) : (logAuthzDenied st r).authorizer = st.authorizer := by
  unfold logAuthzDenied
  simp only
  split
  · split <;> rfl
  · rfl

theorem step_authorizer (st : State) (r : Request) : (step st r).1.authorizer = st.authorizer := by
  unfold step
  simp only
  split
  · rfl
  · rw [logAuthzDenied_authorizer]; rfl

theorem step_decision (st : State) (r : Request) : (step st r).2 = allowsWith matchesRule st.authorizer r.req := by
  unfold step
  simp only
  split <;> simp_all

theorem run_authorizer (st : State) (hist : List Request) : (run st hist).authorizer = st.authorizer := by
  unfold run
  induction hist generalizing st with
  | nil => rfl
  | cons r rest ih => rw [List.foldl_cons, ih, step_authorizer]

theorem authItems_authorizer (p a r : List Char) (st : State) (names : List (Nat × List Char)) :
    (authItems p a r st names).1.authorizer = st.authorizer := by
  induction names generalizing st with
  | nil => rfl
  | cons x rest ih => simp only [authItems]; rw [ih, step_authorizer]

theorem authItems_items (p a r : List Char) (st : State) (names : List (Nat × List Char)) :
    (authItems p a r st names).2
      = names.map fun x => ⟨x.1, allowsWith matchesRule st.authorizer ⟨p, a, r, x.2⟩⟩ := by
  induction names generalizing st with
  | nil => rfl
  | cons x rest ih =>
    simp only [authItems, List.map_cons]
    rw [ih, step_authorizer, step_decision]

theorem stepG_authorizer (s : State × Store) (g : GReq) : (stepG s g).1.1.authorizer = s.1.authorizer := by
  unfold stepG
  simp only
  rw [authItems_authorizer]

theorem runG_authorizer (s : State × Store) (hist : List GReq) : (runG s hist).1.authorizer = s.1.authorizer := by
  unfold runG
  induction hist generalizing s with
  | nil => rfl
  | cons g rest ih => rw [List.foldl_cons, ih, stepG_authorizer]

/-- the items the gate sees are judged by the handler's authorizer alone -/
theorem stepG_eq (s : State × Store) (g : GReq) :
    ((stepG s g).1.2, (stepG s g).2)
      = handle g.gran g.eff s.2
          (g.names.map fun x => ⟨x.1, allowsWith matchesRule s.1.authorizer ⟨g.principal, g.action, g.resource, x.2⟩⟩) := by
  unfold stepG
  simp only
  rw [authItems_items]

end KafVerif.AclSession

namespace KafVerif.C24
open KafVerif KafVerif.Acl KafVerif.AclGate KafVerif.AclSession

/-- (7) THE DECISION IS A FUNCTION OF (config, principal, action, resource) ONLY.  For every handler state `st` whose
authorizer was built from `cfg` — whatever its denial log, counters and clock hold — and every history `hist` of
earlier requests (any principals, any names, any outcome), the decision of the next request `r` equals the pure ACL
decision `Acl.allows cfg r.req`. -/
theorem decision_depends_only_on_request (cfg : Config) (st : State) (hst : st.authorizer = newAuthorizer cfg)
    (hist : List Request) (r : Request) :
    (step (run st hist) r).2 = Acl.allows cfg r.req := by
  rw [step_decision, run_authorizer, hst]
  rfl

/-- … in particular from a freshly built handler. -/
theorem decision_depends_only_on_request_init (cfg : Config) (hist : List Request) (r : Request) :
    (step (run (init cfg) hist) r).2 = Acl.allows cfg r.req :=
  decision_depends_only_on_request cfg (init cfg) rfl hist r

/-- (8) every decision of a session is the pure decision of its own request -/
theorem session_decisions_eq (cfg : Config) (st : State) (hst : st.authorizer = newAuthorizer cfg) (reqs : List Request) :
    decisions st reqs = reqs.map fun r => Acl.allows cfg r.req := by
  induction reqs generalizing st with
  | nil => rfl
  | cons r rest ih =>
    simp only [decisions, List.map_cons]
    rw [ih (step st r).1 (by rw [step_authorizer, hst]), step_decision, hst]
    rfl

/-- (9) what was asked earlier — by whom, about what, allowed or denied — does not matter -/
theorem decision_history_independent (cfg : Config) (st st' : State)
    (hst : st.authorizer = newAuthorizer cfg) (hst' : st'.authorizer = newAuthorizer cfg)
    (hist hist' : List Request) (r r' : Request) (hreq : r.req = r'.req) :
    (step (run st hist) r).2 = (step (run st' hist') r').2 := by
  rw [decision_depends_only_on_request cfg st hst, decision_depends_only_on_request cfg st' hst', hreq]

/-- (10) the gate behind the session: after ANY history of gated requests, a request all of whose items the pure
ACL decision denies leaves the store as it is and is answered `denied` item by item. -/
theorem session_denied_noop (cfg : Config) (s0 : State × Store) (h0 : s0.1.authorizer = newAuthorizer cfg)
    (hist : List GReq) (g : GReq) (hg : g.gran ≠ .none) (hne : g.names ≠ [])
    (hden : ∀ x ∈ g.names, Acl.allows cfg ⟨g.principal, g.action, g.resource, x.2⟩ = false) :
    (stepG (runG s0 hist) g).1.2 = (runG s0 hist).2 ∧ (stepG (runG s0 hist) g).2 = g.names.map fun _ => .denied := by
  have ha : (runG s0 hist).1.authorizer = newAuthorizer cfg := by rw [runG_authorizer, h0]
  have he := stepG_eq (runG s0 hist) g
  rw [ha] at he
  have hd := denied_is_noop g.gran g.eff (runG s0 hist).2
    (g.names.map fun x => ⟨x.1, allowsWith matchesRule (newAuthorizer cfg) ⟨g.principal, g.action, g.resource, x.2⟩⟩)
    hg (by cases hn : g.names with
           | nil => exact absurd hn hne
           | cons a t => simp)
    (by
      intro it hit
      obtain ⟨x, hx, rfl⟩ := List.mem_map.mp hit
      exact hden x hx)
  rw [hd] at he
  have h1 := congrArg Prod.fst he
  have h2 := congrArg Prod.snd he
  simp only [List.map_map] at h1 h2
  exact ⟨h1, by rw [h2]; rfl⟩

/-- (11) per-item gates in a session: a resource all of whose items the pure ACL decision denies keeps its value,
whatever the other items of the request do and whatever happened before. -/
theorem session_perItem_denied_untouched (cfg : Config) (s0 : State × Store) (h0 : s0.1.authorizer = newAuthorizer cfg)
    (hist : List GReq) (g : GReq) (hg : g.gran = .perItem) (n : Nat)
    (hden : ∀ x ∈ g.names, x.1 = n → Acl.allows cfg ⟨g.principal, g.action, g.resource, x.2⟩ = false) :
    lookup (stepG (runG s0 hist) g).1.2 n = lookup (runG s0 hist).2 n := by
  have ha : (runG s0 hist).1.authorizer = newAuthorizer cfg := by rw [runG_authorizer, h0]
  have he := congrArg Prod.fst (stepG_eq (runG s0 hist) g)
  rw [ha, hg] at he
  simp only at he
  rw [he]
  apply perItem_denied_untouched
  intro it hit hn
  obtain ⟨x, hx, rfl⟩ := List.mem_map.mp hit
  exact hden x hx hn

/-! the memoising handler (the ambiguous joined key) does not have the property -/
def cfgAlice : Config :=
  { enabled := true, defaultPolicy := "deny".toList,
    principals := [{ name := "alice".toList, allow := [⟨"produce".toList, "topic".toList, "orders-*".toList⟩], deny := [] }] }
def reqAlice : Request := { req := ⟨"alice".toList, "produce".toList, "topic".toList, "orders-x|secret".toList⟩ }
def reqOther : Request := { req := ⟨"alice|orders-x".toList, "produce".toList, "topic".toList, "secret".toList⟩ }

/-- (12) a decision cache keyed by `action|resource|principal|name`: after alice's request the rule-less principal
`alice|orders-x` is allowed to produce to `secret`. -/
theorem memoised_decisions_violate :
    ∃ (cfg : Config) (hist : List Request) (r : Request),
      (stepMemo (runMemo ⟨init cfg, []⟩ hist) r).2 ≠ Acl.allows cfg r.req :=
  ⟨cfgAlice, [reqAlice], reqOther, by decide⟩

/-! non-vacuity of the session theorems: the same two requests through the handler at HEAD -/
example : Acl.allows cfgAlice reqAlice.req = true ∧ Acl.allows cfgAlice reqOther.req = false := by decide
example : (step (run (init cfgAlice) [reqAlice]) reqOther).2 = false := by decide
example : decisions (init cfgAlice) [reqOther, reqAlice, reqOther, reqAlice] = [false, true, false, true] := by decide
example : joinKey reqAlice.req = joinKey reqOther.req := by decide
example : (run (init cfgAlice) [reqOther, reqOther]).deniedTotal = 2
    ∧ (run (init cfgAlice) [reqOther, reqOther]).authLogLast.length = 1 := by decide
-- the gate behind the session: alice's (allowed) item changes its resource, the other principal's (denied) does not
def gAlice : GReq := ⟨"alice".toList, "produce".toList, "topic".toList, .perItem, [(1, "orders-x|secret".toList)], (· + 1), 0⟩
def gOther : GReq := ⟨"alice|orders-x".toList, "produce".toList, "topic".toList, .perItem, [(7, "secret".toList)], (· + 1), 0⟩
example : (runG (init cfgAlice, [(7, 5)]) [gAlice]).2 = [(7, 5), (1, 1)] := by decide
example : (stepG (runG (init cfgAlice, [(7, 5)]) [gAlice]) gOther).1.2 = [(7, 5), (1, 1)]
    ∧ (stepG (runG (init cfgAlice, [(7, 5)]) [gAlice]) gOther).2 = [.denied] := by decide

end KafVerif.C24

/-! ## which principal a request is authorised as: connections (Model/AclConn) -/

namespace KafVerif.AclConn
open KafVerif KafVerif.GoStr KafVerif.Acl KafVerif.AclGate KafVerif.AclSession

theorem set_same {α : Type} (l : List α) (i : Nat) (c : α) (h : l[i]? = some c) : l.set i c = l := by
  induction l generalizing i with
  | nil => rfl
  | cons x rest ih =>
    cases i with
    | zero => simp at h; simp [h]
    | succ j => simp at h; simp [ih j h]

theorem connRun_connStep (c : ConnResult) (hist : List (Option (List Char))) : connRunWith connStep c hist = c := by
  induction hist generalizing c with
  | nil => rfl
  | cons x rest ih => simp only [connRunWith, List.foldl_cons, connStep] at *; exact ih c

theorem lower_consts : clientIdStr.map lowerAscii = clientIdStr ∧ remoteAddrStr.map lowerAscii = remoteAddrStr
    ∧ proxyAddrStr.map lowerAscii = proxyAddrStr := by decide

/-- `principalFromContext` over what `buildConnContextFunc` attached = the property's reading -/
theorem principal_of_build (cc : ConnCfg) (a : ConnAttrs) (cid : Option (List Char))
    (hacc : buildConn cc a ≠ .refused) :
    principalFromContext (infoOf (buildConn cc a)) cid = principalSpec cc a cid := by
  obtain ⟨hc, hr, hp⟩ := lower_consts
  have hne1 : remoteAddrStr ≠ proxyAddrStr := by decide
  have hne2 : clientIdStr ≠ remoteAddrStr := by decide
  have hne3 : clientIdStr ≠ proxyAddrStr := by decide
  have hne4 : proxyAddrStr ≠ remoteAddrStr := by decide
  have hne5 : remoteAddrStr ≠ clientIdStr := by decide
  have hne6 : proxyAddrStr ≠ clientIdStr := by decide
  unfold buildConn principalSpec peerAddr proxyOn at *
  simp only [equalFold, hc, hr, hp] at *
  generalize (sourceOf cc).map lowerAscii = src at *
  by_cases h1 : src = remoteAddrStr
  · subst h1
    cases hpp : cc.proxyProtocol <;> cases hx : a.proxy <;> (try (rename_i s; by_cases hs : s = [])) <;>
      simp_all [principalFromContext, infoOf] <;> (try (split <;> simp_all))
  · by_cases h2 : src = proxyAddrStr
    · subst h2
      cases hpp : cc.proxyProtocol <;> cases hx : a.proxy <;> (try (rename_i s; by_cases hs : s = [])) <;>
        simp_all [principalFromContext, infoOf] <;> (try (split <;> simp_all))
    · by_cases h3 : src = clientIdStr
      · subst h3
        cases hpp : cc.proxyProtocol <;> cases hx : a.proxy <;> (try (rename_i s; by_cases hs : s = [])) <;>
          simp_all [principalFromContext, infoOf, trimSpace_idem_nil] <;> (try (split <;> simp_all))
      · cases hpp : cc.proxyProtocol <;> cases hx : a.proxy <;> (try (rename_i s; by_cases hs : s = [])) <;>
          simp_all [principalFromContext, infoOf, trimSpace_idem_nil] <;> (try (split <;> simp_all))


/-- a connection is refused exactly when a PROXY header is required and missing / malformed -/
theorem refused_iff (cc : ConnCfg) (a : ConnAttrs) : buildConn cc a = .refused ↔ accepted cc a = false := by
  obtain ⟨hc, hr, hp⟩ := lower_consts
  unfold buildConn accepted proxyOn
  simp only [equalFold, hc, hp]
  generalize (sourceOf cc).map lowerAscii = src
  cases hpp : cc.proxyProtocol <;> cases hx : a.proxy <;> by_cases h2 : src = proxyAddrStr <;>
    by_cases h3 : src = clientIdStr <;> simp_all <;> (repeat' split) <;> simp_all

theorem stepC_conns (s : State × List ConnResult) (r : CReq) : (stepC s r).1.2 = s.2 := by
  unfold stepC stepCWith
  split
  · rfl
  · rfl
  · rename_i c _ hc
    simp only [connStep]
    exact set_same _ _ _ hc

theorem stepC_authorizer (s : State × List ConnResult) (r : CReq) : (stepC s r).1.1.authorizer = s.1.authorizer := by
  unfold stepC stepCWith
  split
  · rfl
  · rfl
  · simp only [step_authorizer]

theorem runC_inv (s : State × List ConnResult) (hist : List CReq) :
    (runC s hist).2 = s.2 ∧ (runC s hist).1.authorizer = s.1.authorizer := by
  unfold runC runCWith
  induction hist generalizing s with
  | nil => exact ⟨rfl, rfl⟩
  | cons r rest ih =>
    rw [List.foldl_cons]
    have h := ih (stepCWith connStep s r).1
    have h1 := stepC_conns s r
    have h2 := stepC_authorizer s r
    unfold stepC at h1 h2
    rw [h1, h2] at h
    exact h

theorem stepCG_conns (s : (State × Store) × List ConnResult) (r : CGReq) : (stepCG s r).1.2 = s.2 := by
  unfold stepCG
  split
  · rfl
  · rfl
  · rename_i c _ hc
    simp only [connStep]
    exact set_same _ _ _ hc

theorem stepCG_authorizer (s : (State × Store) × List ConnResult) (r : CGReq) :
    (stepCG s r).1.1.1.authorizer = s.1.1.authorizer := by
  unfold stepCG
  split
  · rfl
  · rfl
  · simp only [stepG_authorizer]

theorem runCG_inv (s : (State × Store) × List ConnResult) (hist : List CGReq) :
    (runCG s hist).2 = s.2 ∧ (runCG s hist).1.1.authorizer = s.1.1.authorizer := by
  unfold runCG
  induction hist generalizing s with
  | nil => exact ⟨rfl, rfl⟩
  | cons r rest ih =>
    rw [List.foldl_cons]
    have h := ih (stepCG s r).1
    rw [stepCG_conns, stepCG_authorizer] at h
    exact h

end KafVerif.AclConn

namespace KafVerif.C24
open KafVerif KafVerif.GoStr KafVerif.Acl KafVerif.AclGate KafVerif.AclSession KafVerif.AclConn

/-- (13) THE PRINCIPAL OF A REQUEST IS A FUNCTION OF (broker configuration, the connection's immutable attributes,
THAT request's client id).  For every configuration `cc`, every connection attributes `a` the broker serves, and every
history `hist` of client ids of EARLIER requests on the same connection, the principal `principalFromContext` derives
for the next request is `principalSpec cc a cid` — nothing an earlier request carried is remembered. -/
theorem principal_depends_only_on_request_and_conn (cc : ConnCfg) (a : ConnAttrs) (hacc : accepted cc a = true)
    (hist : List (Option (List Char))) (cid : Option (List Char)) :
    (connStep (connRunWith connStep (buildConn cc a) hist) cid).2 = principalSpec cc a cid := by
  rw [connRun_connStep]
  have hne : buildConn cc a ≠ .refused := by
    intro h
    rw [(refused_iff cc a).mp h] at hacc
    exact absurd hacc (by decide)
  exact principal_of_build cc a cid hne

/-- two requests with the same client id on connections with the same attributes get the same principal, whatever
was sent before on either -/
theorem principal_history_independent (cc : ConnCfg) (a : ConnAttrs) (hacc : accepted cc a = true)
    (hist hist' : List (Option (List Char))) (cid : Option (List Char)) :
    (connStep (connRunWith connStep (buildConn cc a) hist) cid).2
      = (connStep (connRunWith connStep (buildConn cc a) hist') cid).2 := by
  rw [principal_depends_only_on_request_and_conn cc a hacc, principal_depends_only_on_request_and_conn cc a hacc]

/-- (14) ONE handler, SEVERAL connections: after ANY history of requests (any connection, any client id, any
outcome) the decision for a request that arrives on served connection `r.conn` is the pure ACL decision for
`principalSpec cc a r.clientId`. -/
theorem conn_decision_depends_only_on_request_and_conn (cfg : Config) (st : State)
    (hst : st.authorizer = newAuthorizer cfg) (cc : ConnCfg) (attrs : List ConnAttrs) (hist : List CReq) (r : CReq)
    (a : ConnAttrs) (ha : attrs[r.conn]? = some a) (hacc : accepted cc a = true) :
    (stepC (runC (st, attrs.map (buildConn cc)) hist) r).2
      = some (Acl.allows cfg ⟨principalSpec cc a r.clientId, r.action, r.resource, r.name⟩) := by
  obtain ⟨h1, h2⟩ := runC_inv (st, attrs.map (buildConn cc)) hist
  have hne : buildConn cc a ≠ .refused := by
    intro h
    rw [(refused_iff cc a).mp h] at hacc
    exact absurd hacc (by decide)
  have hget : (runC (st, attrs.map (buildConn cc)) hist).2[r.conn]? = some (buildConn cc a) := by
    rw [h1]; simp [ha]
  unfold stepC stepCWith
  split
  · rename_i hn; rw [hget] at hn; cases hn
  · rename_i hn; rw [hget] at hn; exact absurd (Option.some.inj hn).symm (fun h => hne h.symm)
  · rename_i c _ hc
    rw [hget] at hc
    cases hc
    simp only [connStep, step_decision]
    rw [h2, principal_of_build cc a r.clientId hne]
    simp only [hst]
    rfl

/-- (15) the gate behind it: after ANY history on ANY connections, a request on a served connection all of whose
items the pure ACL decision denies FOR `principalSpec cc a clientId` leaves the store as it is and is answered
`denied` item by item. -/
theorem conn_session_denied_noop (cfg : Config) (s0 : State × Store) (h0 : s0.1.authorizer = newAuthorizer cfg)
    (cc : ConnCfg) (attrs : List ConnAttrs) (hist : List CGReq) (r : CGReq)
    (a : ConnAttrs) (ha : attrs[r.conn]? = some a) (hacc : accepted cc a = true)
    (hg : r.g.gran ≠ .none) (hne : r.g.names ≠ [])
    (hden : ∀ x ∈ r.g.names, Acl.allows cfg ⟨principalSpec cc a r.clientId, r.g.action, r.g.resource, x.2⟩ = false) :
    (stepCG (runCG (s0, attrs.map (buildConn cc)) hist) r).1.1.2 = (runCG (s0, attrs.map (buildConn cc)) hist).1.2
      ∧ (stepCG (runCG (s0, attrs.map (buildConn cc)) hist) r).2 = r.g.names.map fun _ => .denied := by
  obtain ⟨h1, h2⟩ := runCG_inv (s0, attrs.map (buildConn cc)) hist
  have hnr : buildConn cc a ≠ .refused := by
    intro h
    rw [(refused_iff cc a).mp h] at hacc
    exact absurd hacc (by decide)
  have hget : (runCG (s0, attrs.map (buildConn cc)) hist).2[r.conn]? = some (buildConn cc a) := by
    rw [h1]; simp [ha]
  have hauth : (runCG (s0, attrs.map (buildConn cc)) hist).1.1.authorizer = newAuthorizer cfg := by rw [h2]; exact h0
  unfold stepCG
  split
  · rename_i hn; rw [hget] at hn; cases hn
  · rename_i hn; rw [hget] at hn; exact absurd (Option.some.inj hn).symm (fun h => hnr h.symm)
  · rename_i c _ hc
    rw [hget] at hc
    cases hc
    simp only [connStep]
    rw [principal_of_build cc a r.clientId hnr]
    exact session_denied_noop cfg (runCG (s0, attrs.map (buildConn cc)) hist).1 hauth []
      { r.g with principal := principalSpec cc a r.clientId } hg hne hden

/-! the write-back variant ("resolve the identity once per connection") does not have the property -/
def ccProxyClientId : ConnCfg := { source := [], proxyProtocol := true }
def attrsLB : ConnAttrs := { remoteAddr := "10.9.9.9:4000".toList, proxy := .addr "10.0.0.1:12345".toList }

/-- (16) PROXY protocol on, principal source `client_id`: after a request of `client-admin`, the request of `client-b`
on the same connection is authorised as `client-admin`. -/
theorem sticky_principal_violates :
    ∃ (cc : ConnCfg) (a : ConnAttrs) (hist : List (Option (List Char))) (cid : Option (List Char)),
      accepted cc a = true ∧
      (connStepSticky (connRunWith connStepSticky (buildConn cc a) hist) cid).2 ≠ principalSpec cc a cid :=
  ⟨ccProxyClientId, attrsLB, [some "client-admin".toList], some "client-b".toList, by decide, by decide⟩

/-! non-vacuity -/
-- the same history through HEAD's connStep: client-b stays client-b; the ConnContext exists with an empty principal
example : (connStep (connRunWith connStep (buildConn ccProxyClientId attrsLB) [some "client-admin".toList])
    (some "client-b".toList)).2 = "client-b".toList := by decide
example : buildConn ccProxyClientId attrsLB
    = .ctx { principal := [], remoteAddr := "10.0.0.1:12345".toList, proxyAddr := "10.0.0.1:12345".toList } := by decide
-- every kind of outcome of buildConn occurs
example : buildConn { source := [], proxyProtocol := false } attrsLB = .noContext := by decide
example : buildConn ccProxyClientId { remoteAddr := "10.9.9.9:4000".toList, proxy := .absent } = .refused := by decide
example : accepted ccProxyClientId { remoteAddr := "10.9.9.9:4000".toList, proxy := .absent } = false := by decide
example : principalSpec { source := " Proxy_Addr ".toList, proxyProtocol := false } attrsLB (some "x".toList) = "10.0.0.1".toList := by
  decide
example : principalSpec { source := "remote_addr".toList, proxyProtocol := false } attrsLB (some "x".toList) = "10.9.9.9".toList := by
  decide
example : principalSpec { source := "remote_addr".toList, proxyProtocol := true }
    { remoteAddr := "10.9.9.9:4000".toList, proxy := .isLocal } none = "10.9.9.9".toList := by decide
-- a blank address-derived principal falls back to the request's client id
example : principalSpec { source := "remote_addr".toList, proxyProtocol := false } { remoteAddr := [], proxy := .absent }
    (some "alice".toList) = "alice".toList := by decide
example : hostFromAddr "[::1]:9092".toList = "::1".toList ∧ hostFromAddr "alice:1".toList = "alice".toList
    ∧ hostFromAddr "a:b:1".toList = "a:b:1".toList ∧ hostFromAddr "pipe".toList = "pipe".toList := by decide
-- two connections on one handler: `b` after `adm` on connection 0 is denied (HEAD); through the write-back variant
-- it is allowed
def cfgAdm : Config :=
  { enabled := true, defaultPolicy := "deny".toList,
    principals := [{ name := "adm".toList, allow := [⟨"*".toList, "*".toList, "t".toList⟩], deny := [] }] }
def rq (conn : Nat) (cid : String) : CReq := ⟨conn, some cid.toList, "produce".toList, "topic".toList, "t".toList, 0⟩
def ccP : ConnCfg := { source := [], proxyProtocol := true }
def atP : ConnAttrs := { remoteAddr := "x:1".toList, proxy := .isLocal }
example : (stepC (runC (init cfgAdm, [atP, atP].map (buildConn ccP)) [rq 0 "adm", rq 1 "adm"]) (rq 0 "b")).2 = some false
    ∧ (stepC (runC (init cfgAdm, [atP, atP].map (buildConn ccP)) [rq 0 "b", rq 1 "b"]) (rq 0 "adm")).2 = some true := by
  decide
example : (stepCWith connStepSticky (runCWith connStepSticky (init cfgAdm, [atP].map (buildConn ccP)) [rq 0 "adm"])
    (rq 0 "b")).2 = some true := by decide

end KafVerif.C24
