import KafVerif.Model.AclGate
import KafVerif.Model.AclSession
import KafVerif.Gen.C24Guards
/-!
C24 — With ACLs on, unauthorized requests change nothing and leak nothing.

`Gen/C24Guards.lean` is regenerated (go/ast over `handler.Handle`, following `h.handle*` one level) on every
run: per `case *kmsg.XRequest` arm, the `h.allow*` calls, the effectful calls and the reads of protected data,
in source order.  `AclGate.spec` is the hand-written reading of the property (required permission per request
type).  Theorems:
* `guards_complete`          (decide over the regenerated table) every arm is classified and guarded as required,
                             and its first guard precedes every effect/read of the arm
* `guarded_arms_have_gate`   soundness: a complete table gives every permission-requiring arm a real gate
* `denied_is_noop`           for EVERY effect, store and request: if the authorizer denies every item, the store
                             is unchanged and every item is answered "denied" (no data)
* `whole_denied_noop`        whole-request gates: one denied item rejects the whole request, store unchanged
* `perItem_denied_untouched` per-item gates: a resource whose items are all denied keeps its value
* `perItem_eq_allowed_only`  … and the store ends up exactly as if only the allowed items had been sent
* `perItem_deny_bits`        … and exactly the denied items are answered "denied"
* `ungated_violates`         the pre-fix Metadata arm (no gate in front of the auto-create) violates the property

Session model (`Model/AclSession.lean`: ONE handler, many requests, several principals):
* `decision_depends_only_on_request`  for EVERY handler state whose authorizer was built from `cfg` (whatever the
                             denial log / counters hold) and EVERY history of earlier requests from any principals,
                             the decision of the next request is `Acl.allows cfg (principal, action, resource, name)`
* `session_decisions_eq`     the decisions of a whole session are `map (allows cfg)` of its requests
* `decision_history_independent`  two different histories give the same decision for the same request
* `session_denied_noop`      gate behind the session: after ANY history, a request all of whose items `allows cfg`
                             denies leaves the store unchanged and is answered `denied` item by item
* `session_perItem_denied_untouched`  … per-item gate: a resource whose items `allows cfg` denies keeps its value
* `memoised_decisions_violate`  a handler that memoises decisions under `action|resource|principal|name` does NOT
                             have the property (alice + `orders-x|secret`, then `alice|orders-x` + `secret`)
-/
namespace KafVerif.AclGate

theorem find_map_other (eff : Nat → Nat) (n m : Nat) (h : n ≠ m) (t : Store) :
    ((t.map fun e => if e.1 == m then (e.1, eff e.2) else e).find? (fun x => x.1 == n)).map (·.2)
      = (t.find? (fun x => x.1 == n)).map (·.2) := by
  induction t with
  | nil => rfl
  | cons a t ih =>
    simp only [List.map_cons, List.find?_cons]
    by_cases ham : a.1 = m
    · have h1 : (a.1 == m) = true := by simp [ham]
      have h2 : (a.1 == n) = false := by simp [ham]; omega
      simp only [h1, if_true, h2]
      exact ih
    · have h1 : (a.1 == m) = false := by simp [ham]
      simp only [h1, Bool.false_eq_true, if_false]
      by_cases han : (a.1 == n) = true
      · simp [han]
      · have : (a.1 == n) = false := by simpa using han
        simp only [this]
        exact ih

theorem lookup_apply_other (eff : Nat → Nat) (st : Store) (n m : Nat) (h : n ≠ m) :
    lookup (apply eff st m) n = lookup st n := by
  unfold apply
  cases hl : lookup st m with
  | some v =>
    simp only
    unfold lookup
    exact find_map_other eff n m h st
  | none =>
    simp only
    unfold lookup
    rw [List.find?_append]
    have : List.find? (fun x => x.1 == n) [(m, eff 0)] = none := by
      have hmn : (m == n) = false := by simp; omega
      simp [List.find?_cons, hmn]
    rw [this]; simp

end KafVerif.AclGate

namespace KafVerif.C24
open KafVerif KafVerif.AclGate

/-- OBLIGATION over the regenerated guard table. -/
theorem guards_complete : guardsComplete KafVerif.Gen.C24.arms = true := by decide

theorem spec_keys_unique : ∀ n ∈ spec, ∀ n' ∈ spec, n.key = n'.key → n = n' := by decide

/-- Soundness of the table check: every arm whose request type requires a permission has a gate (`granOf ≠ none`)
of the required resource kind and action. -/
theorem guarded_arms_have_gate (arms : List Arm) (h : guardsComplete arms = true) :
    ∀ a ∈ arms, ∀ n ∈ spec, n.key = a.key → n.res ≠ 0 →
      granOf a ≠ .none ∧ ∃ g, firstGuard a = some g ∧ g.res = n.res ∧ g.action ∈ n.actions ∧ g.inCond = true := by
  intro a ha n hn hk hres
  unfold guardsComplete at h
  have h1 := (Bool.and_eq_true _ _).mp h
  have harm := List.all_eq_true.mp h1.1 a ha
  obtain ⟨n', hn', hok⟩ := List.any_eq_true.mp harm
  simp only [Bool.and_eq_true, beq_iff_eq] at hok
  have : n' = n := spec_keys_unique n' hn' n hn (by rw [hok.1, hk])
  subst this
  have hok2 := hok.2
  unfold armOk at hok2
  simp only [hres, if_false] at hok2
  cases hg : firstGuard a with
  | none => rw [hg] at hok2; simp at hok2
  | some g =>
    rw [hg] at hok2
    simp only [Bool.and_eq_true, beq_iff_eq, decide_eq_true_eq] at hok2
    refine ⟨?_, g, rfl, hok2.1.1.1, by simpa using hok2.1.1.2, hok2.1.2⟩
    unfold granOf; rw [hg]
    by_cases hl : g.inLoop = true <;> simp [hl]

theorem serveDenied (eff : Nat → Nat) (st : Store) (items : List Item) (h : ∀ it ∈ items, it.allowed = false) :
    servePerItem eff st items = (st, items.map fun _ => .denied) := by
  induction items with
  | nil => rfl
  | cons it rest ih =>
    have h0 : it.allowed = false := h it (by simp)
    simp only [servePerItem, h0]
    rw [ih (fun x hx => h x (by simp [hx]))]
    simp

/-- (1) Denied is a no-op: whatever the request's effect `eff`, the store and the items, if the gate is present
(`g ≠ none`) and the authorizer denies every item, the store is unchanged and every item is answered `denied`
(an authorization error without data). -/
theorem denied_is_noop (g : Gran) (eff : Nat → Nat) (st : Store) (items : List Item)
    (hg : g ≠ .none) (hne : items ≠ []) (h : ∀ it ∈ items, it.allowed = false) :
    handle g eff st items = (st, items.map fun _ => .denied) := by
  cases g with
  | none => exact absurd rfl hg
  | whole =>
    unfold handle
    have : items.all (·.allowed) = false := by
      cases items with
      | nil => exact absurd rfl hne
      | cons a t => simp [h a (by simp)]
    simp [this]
  | perItem => exact serveDenied eff st items h

/-- (2) Whole-request gates: ONE denied item is enough — nothing changes, everything is answered `denied`. -/
theorem whole_denied_noop (eff : Nat → Nat) (st : Store) (items : List Item)
    (h : ∃ it ∈ items, it.allowed = false) :
    handle .whole eff st items = (st, items.map fun _ => .denied) := by
  obtain ⟨it, hit, ha⟩ := h
  unfold handle
  have : items.all (·.allowed) = false := by
    rw [List.all_eq_false]; exact ⟨it, hit, by simp [ha]⟩
  simp [this]

/-- (3) Per-item gates: a resource all of whose items are denied keeps its value, whatever the allowed items do. -/
theorem perItem_denied_untouched (eff : Nat → Nat) (st : Store) (items : List Item) (n : Nat)
    (h : ∀ it ∈ items, it.name = n → it.allowed = false) :
    lookup (handle .perItem eff st items).1 n = lookup st n := by
  unfold handle
  simp only
  induction items generalizing st with
  | nil => rfl
  | cons it rest ih =>
    unfold servePerItem
    by_cases ha : it.allowed
    · have hne : n ≠ it.name := by
        intro heq
        have := h it (by simp) heq.symm
        rw [ha] at this; exact absurd this (by simp)
      simp only [ha, if_true]
      rw [ih (apply eff st it.name) (fun x hx => h x (by simp [hx]))]
      exact lookup_apply_other eff st n it.name hne
    · simp only [ha]
      exact ih st (fun x hx => h x (by simp [hx]))

/-- (4) … and the final store is exactly what the allowed items alone produce. -/
theorem perItem_eq_allowed_only (eff : Nat → Nat) (st : Store) (items : List Item) :
    (handle .perItem eff st items).1 = (handle .none eff st (items.filter (·.allowed))).1 := by
  unfold handle
  simp only
  induction items generalizing st with
  | nil => rfl
  | cons it rest ih =>
    unfold servePerItem
    by_cases ha : it.allowed
    · simp only [ha, if_true, List.filter_cons]
      unfold serveAll
      simp only
      exact ih (apply eff st it.name)
    · simp only [ha, List.filter_cons]
      exact ih st

/-- (5) … and exactly the denied items are answered `denied`. -/
theorem perItem_deny_bits (eff : Nat → Nat) (st : Store) (items : List Item) :
    denyBits (handle .perItem eff st items).2 = items.map fun it => !it.allowed := by
  unfold handle denyBits
  simp only
  induction items generalizing st with
  | nil => rfl
  | cons it rest ih =>
    unfold servePerItem
    by_cases ha : it.allowed
    · simp only [ha, if_true, List.map_cons]
      rw [ih (apply eff st it.name)]
      simp
    · have hf : it.allowed = false := by simpa using ha
      simp only [hf, Bool.false_eq_true, if_false, List.map_cons]
      rw [ih st]
      simp

/-- (6) The Metadata arm before the fix had no gate in front of `ensureTopic`: a principal without any
permission changes the store. -/
theorem ungated_violates :
    ∃ (eff : Nat → Nat) (st : Store) (items : List Item),
      (∀ it ∈ items, it.allowed = false) ∧ (handle .none eff st items).1 ≠ st :=
  ⟨(· + 1), [], [⟨7, false⟩], by decide, by decide⟩

/-! non-vacuity -/
example : handle .perItem (· + 1) [(1, 5)] [⟨1, false⟩, ⟨2, true⟩] = ([(1, 5), (2, 1)], [.denied, .served (some 1)]) := by decide
example : handle .whole (· + 1) [(1, 5)] [⟨1, false⟩, ⟨2, true⟩] = ([(1, 5)], [.denied, .denied]) := by decide
example : granOf ⟨0, [⟨0, 1, 1, true, true⟩, ⟨1, 0, 0, true, false⟩]⟩ = .perItem := by decide
example : guardsComplete [⟨3, [⟨1, 0, 0, true, false⟩]⟩] = false := by decide

/-! ## sessions: one handler, many requests, several principals -/
end KafVerif.C24

namespace KafVerif.AclSession
open KafVerif KafVerif.Acl KafVerif.AclGate

theorem logAuthzDenied_authorizer (st : State) (r : Acl.Req) : (logAuthzDenied st r).authorizer = st.authorizer := by
  unfold logAuthzDenied
  simp only
  split
  · split <;> rfl
  · rfl

theorem step_authorizer (st : State) (r : Request) : (step st r).1.authorizer = st.authorizer := by
  unfold step
  simp only
  split
  · rfl
  · rw [logAuthzDenied_authorizer]; rfl

theorem step_decision (st : State) (r : Request) : (step st r).2 = allowsWith matchesRule st.authorizer r.req := by
  unfold step
  simp only
  split <;> simp_all

theorem run_authorizer (st : State) (hist : List Request) : (run st hist).authorizer = st.authorizer := by
  unfold run
  induction hist generalizing st with
  | nil => rfl
  | cons r rest ih => rw [List.foldl_cons, ih, step_authorizer]

theorem authItems_authorizer (p a r : List Char) (st : State) (names : List (Nat × List Char)) :
    (authItems p a r st names).1.authorizer = st.authorizer := by
  induction names generalizing st with
  | nil => rfl
  | cons x rest ih => simp only [authItems]; rw [ih, step_authorizer]

theorem authItems_items (p a r : List Char) (st : State) (names : List (Nat × List Char)) :
    (authItems p a r st names).2
      = names.map fun x => ⟨x.1, allowsWith matchesRule st.authorizer ⟨p, a, r, x.2⟩⟩ := by
  induction names generalizing st with
  | nil => rfl
  | cons x rest ih =>
    simp only [authItems, List.map_cons]
    rw [ih, step_authorizer, step_decision]

theorem stepG_authorizer (s : State × Store) (g : GReq) : (stepG s g).1.1.authorizer = s.1.authorizer := by
  unfold stepG
  simp only
  rw [authItems_authorizer]

theorem runG_authorizer (s : State × Store) (hist : List GReq) : (runG s hist).1.authorizer = s.1.authorizer := by
  unfold runG
  induction hist generalizing s with
  | nil => rfl
  | cons g rest ih => rw [List.foldl_cons, ih, stepG_authorizer]

/-- the items the gate sees are judged by the handler's authorizer alone -/
theorem stepG_eq (s : State × Store) (g : GReq) :
    ((stepG s g).1.2, (stepG s g).2)
      = handle g.gran g.eff s.2
          (g.names.map fun x => ⟨x.1, allowsWith matchesRule s.1.authorizer ⟨g.principal, g.action, g.resource, x.2⟩⟩) := by
  unfold stepG
  simp only
  rw [authItems_items]

end KafVerif.AclSession

namespace KafVerif.C24
open KafVerif KafVerif.Acl KafVerif.AclGate KafVerif.AclSession

/-- (7) THE DECISION IS A FUNCTION OF (config, principal, action, resource) ONLY.  For every handler state `st` whose
authorizer was built from `cfg` — whatever its denial log, counters and clock hold — and every history `hist` of
earlier requests (any principals, any names, any outcome), the decision of the next request `r` equals the pure ACL
decision `Acl.allows cfg r.req`. -/
theorem decision_depends_only_on_request (cfg : Config) (st : State) (hst : st.authorizer = newAuthorizer cfg)
    (hist : List Request) (r : Request) :
    (step (run st hist) r).2 = Acl.allows cfg r.req := by
  rw [step_decision, run_authorizer, hst]
  rfl

/-- … in particular from a freshly built handler. -/
theorem decision_depends_only_on_request_init (cfg : Config) (hist : List Request) (r : Request) :
    (step (run (init cfg) hist) r).2 = Acl.allows cfg r.req :=
  decision_depends_only_on_request cfg (init cfg) rfl hist r

/-- (8) every decision of a session is the pure decision of its own request -/
theorem session_decisions_eq (cfg : Config) (st : State) (hst : st.authorizer = newAuthorizer cfg) (reqs : List Request) :
    decisions st reqs = reqs.map fun r => Acl.allows cfg r.req := by
  induction reqs generalizing st with
  | nil => rfl
  | cons r rest ih =>
    simp only [decisions, List.map_cons]
    rw [ih (step st r).1 (by rw [step_authorizer, hst]), step_decision, hst]
    rfl

/-- (9) what was asked earlier — by whom, about what, allowed or denied — does not matter -/
theorem decision_history_independent (cfg : Config) (st st' : State)
    (hst : st.authorizer = newAuthorizer cfg) (hst' : st'.authorizer = newAuthorizer cfg)
    (hist hist' : List Request) (r r' : Request) (hreq : r.req = r'.req) :
    (step (run st hist) r).2 = (step (run st' hist') r').2 := by
  rw [decision_depends_only_on_request cfg st hst, decision_depends_only_on_request cfg st' hst', hreq]

/-- (10) the gate behind the session: after ANY history of gated requests, a request all of whose items the pure
ACL decision denies leaves the store as it is and is answered `denied` item by item. -/
theorem session_denied_noop (cfg : Config) (s0 : State × Store) (h0 : s0.1.authorizer = newAuthorizer cfg)
    (hist : List GReq) (g : GReq) (hg : g.gran ≠ .none) (hne : g.names ≠ [])
    (hden : ∀ x ∈ g.names, Acl.allows cfg ⟨g.principal, g.action, g.resource, x.2⟩ = false) :
    (stepG (runG s0 hist) g).1.2 = (runG s0 hist).2 ∧ (stepG (runG s0 hist) g).2 = g.names.map fun _ => .denied := by
  have ha : (runG s0 hist).1.authorizer = newAuthorizer cfg := by rw [runG_authorizer, h0]
  have he := stepG_eq (runG s0 hist) g
  rw [ha] at he
  have hd := denied_is_noop g.gran g.eff (runG s0 hist).2
    (g.names.map fun x => ⟨x.1, allowsWith matchesRule (newAuthorizer cfg) ⟨g.principal, g.action, g.resource, x.2⟩⟩)
    hg (by cases hn : g.names with
           | nil => exact absurd hn hne
           | cons a t => simp)
    (by
      intro it hit
      obtain ⟨x, hx, rfl⟩ := List.mem_map.mp hit
      exact hden x hx)
  rw [hd] at he
  have h1 := congrArg Prod.fst he
  have h2 := congrArg Prod.snd he
  simp only [List.map_map] at h1 h2
  exact ⟨h1, by rw [h2]; rfl⟩

/-- (11) per-item gates in a session: a resource all of whose items the pure ACL decision denies keeps its value,
whatever the other items of the request do and whatever happened before. -/
theorem session_perItem_denied_untouched (cfg : Config) (s0 : State × Store) (h0 : s0.1.authorizer = newAuthorizer cfg)
    (hist : List GReq) (g : GReq) (hg : g.gran = .perItem) (n : Nat)
    (hden : ∀ x ∈ g.names, x.1 = n → Acl.allows cfg ⟨g.principal, g.action, g.resource, x.2⟩ = false) :
    lookup (stepG (runG s0 hist) g).1.2 n = lookup (runG s0 hist).2 n := by
  have ha : (runG s0 hist).1.authorizer = newAuthorizer cfg := by rw [runG_authorizer, h0]
  have he := congrArg Prod.fst (stepG_eq (runG s0 hist) g)
  rw [ha, hg] at he
  simp only at he
  rw [he]
  apply perItem_denied_untouched
  intro it hit hn
  obtain ⟨x, hx, rfl⟩ := List.mem_map.mp hit
  exact hden x hx hn

/-! the memoising handler (the ambiguous joined key) does not have the property -/
def cfgAlice : Config :=
  { enabled := true, defaultPolicy := "deny".toList,
    principals := [{ name := "alice".toList, allow := [⟨"produce".toList, "topic".toList, "orders-*".toList⟩], deny := [] }] }
def reqAlice : Request := { req := ⟨"alice".toList, "produce".toList, "topic".toList, "orders-x|secret".toList⟩ }
def reqOther : Request := { req := ⟨"alice|orders-x".toList, "produce".toList, "topic".toList, "secret".toList⟩ }

/-- (12) a decision cache keyed by `action|resource|principal|name`: after alice's request the rule-less principal
`alice|orders-x` is allowed to produce to `secret`. -/
theorem memoised_decisions_violate :
    ∃ (cfg : Config) (hist : List Request) (r : Request),
      (stepMemo (runMemo ⟨init cfg, []⟩ hist) r).2 ≠ Acl.allows cfg r.req :=
  ⟨cfgAlice, [reqAlice], reqOther, by decide⟩

/-! non-vacuity of the session theorems: the same two requests through the handler at HEAD -/
example : Acl.allows cfgAlice reqAlice.req = true ∧ Acl.allows cfgAlice reqOther.req = false := by decide
example : (step (run (init cfgAlice) [reqAlice]) reqOther).2 = false := by decide
example : decisions (init cfgAlice) [reqOther, reqAlice, reqOther, reqAlice] = [false, true, false, true] := by decide
example : joinKey reqAlice.req = joinKey reqOther.req := by decide
example : (run (init cfgAlice) [reqOther, reqOther]).deniedTotal = 2
    ∧ (run (init cfgAlice) [reqOther, reqOther]).authLogLast.length = 1 := by decide
-- the gate behind the session: alice's (allowed) item changes its resource, the other principal's (denied) does not
def gAlice : GReq := ⟨"alice".toList, "produce".toList, "topic".toList, .perItem, [(1, "orders-x|secret".toList)], (· + 1), 0⟩
def gOther : GReq := ⟨"alice|orders-x".toList, "produce".toList, "topic".toList, .perItem, [(7, "secret".toList)], (· + 1), 0⟩
example : (runG (init cfgAlice, [(7, 5)]) [gAlice]).2 = [(7, 5), (1, 1)] := by decide
example : (stepG (runG (init cfgAlice, [(7, 5)]) [gAlice]) gOther).1.2 = [(7, 5), (1, 1)]
    ∧ (stepG (runG (init cfgAlice, [(7, 5)]) [gAlice]) gOther).2 = [.denied] := by decide

end KafVerif.C24
