import KafVerif.Model.ConsoleAuth
import KafVerif.Gen.C38Routes
/-!
C38 — Console API requires a live session; logins are rate limited.

Statement (properties.jsonl): every protected console endpoint answers a request only if it carries
a session token issued by a successful login that has not expired or been logged out; other
requests are rejected; a client address gets at most the configured number of login attempts in any
sliding window.  Quantifier: every sequence of login/logout/request events over virtual time and
arbitrary cookies.

All theorems are for EVERY configuration and EVERY operation list (`run cfg ops`), by induction.
The window is half-open `(t − w, t]` as coded (DESIGN section 5).
-/
namespace KafVerif.Console

/-! ### map lemmas -/

theorem lookup_erase {β : Type} (m : List (Nat × β)) (k k' : Nat) :
    lookup (erase m k) k' = if k' = k then none else lookup m k' := by
  induction m with
  | nil => simp [erase, lookup]
  | cons a t ih =>
    obtain ⟨ka, va⟩ := a
    simp only [erase, List.filter_cons] at *
    by_cases h : ka = k
    · subst h
      simp only [bne_self_eq_false, Bool.false_eq_true, if_false]
      rw [ih]
      by_cases h2 : k' = ka
      · simp [h2]
      · have : ¬ ka = k' := fun e => h2 e.symm
        simp [h2, lookup, this]
    · have hne : (ka != k) = true := by simp [bne, h]
      simp only [hne, if_true, lookup]
      by_cases h2 : ka = k'
      · subst h2; simp [h]
      · simp only [h2, if_false]; exact ih

theorem lookup_insert {β : Type} (m : List (Nat × β)) (k k' : Nat) (v : β) :
    lookup (insert m k v) k' = if k' = k then some v else lookup m k' := by
  simp only [insert, lookup]
  by_cases h : k = k'
  · subst h; simp
  · have : ¬ k' = k := fun e => h e.symm
    simp only [h, if_false, this]
    rw [lookup_erase]; simp [this]

theorem hitsOf_insert (m : List (Nat × List Nat)) (k k' : Nat) (v : List Nat) :
    hitsOf (insert m k v) k' = if k' = k then v else hitsOf m k' := by
  unfold hitsOf
  rw [lookup_insert]
  split <;> simp

/-! ### (1) a protected endpoint answers only with a live session -/

/-- `tok` was issued by a successful login at some time `t ≤ now`, has not been logged out since
that login, and `now` is within the session lifetime. -/
def Live (hist : List Event) (tok now ttl : Nat) : Prop :=
  ∃ h1 h2 t, hist = h1 ++ Event.issued tok t :: h2 ∧ Event.loggedOut tok ∉ h2 ∧ t ≤ now ∧ now ≤ t + ttl

/-- every stored session was issued, not logged out since, and its expiry is issue time + ttl -/
def SessInv (s : State) : Prop :=
  ∀ tok exp, lookup s.sessions tok = some exp →
    ∃ h1 h2 t, s.hist = h1 ++ Event.issued tok t :: h2 ∧ Event.loggedOut tok ∉ h2 ∧ t ≤ s.now ∧ exp = t + s.cfg.ttl

theorem sessInv_init (cfg : Config) : SessInv (init cfg) := by
  intro tok exp h; simp [init, lookup] at h

/-- appending events other than `loggedOut tok` keeps a witness -/
theorem witness_append {hist : List Event} {tok t' : Nat} {P : Nat → Prop} (evs : List Event)
    (h : ∃ h1 h2 t, hist = h1 ++ Event.issued tok t :: h2 ∧ Event.loggedOut tok ∉ h2 ∧ P t)
    (hev : Event.loggedOut tok ∉ evs) (_ : t' = t') :
    ∃ h1 h2 t, hist ++ evs = h1 ++ Event.issued tok t :: h2 ∧ Event.loggedOut tok ∉ h2 ∧ P t := by
  obtain ⟨h1, h2, t, e, hn, hp⟩ := h
  refine ⟨h1, h2 ++ evs, t, ?_, ?_, hp⟩
  · rw [e]; simp
  · simp [hn, hev]

theorem sessInv_allow (s : State) (ip : Nat) (h : SessInv s) : SessInv (allow s ip).1 := by
  unfold allow
  split
  · intro tok exp hl
    obtain ⟨h1, h2, t, e, hn, ht, he⟩ := h tok exp hl
    exact witness_append (t' := 0) (P := fun t => t ≤ s.now ∧ exp = t + s.cfg.ttl) [.attempt ip s.now]
      ⟨h1, h2, t, e, hn, ht, he⟩ (by simp) rfl
  · split
    · exact h
    · intro tok exp hl
      obtain ⟨h1, h2, t, e, hn, ht, he⟩ := h tok exp hl
      exact witness_append (t' := 0) (P := fun t => t ≤ s.now ∧ exp = t + s.cfg.ttl) [.attempt ip s.now]
        ⟨h1, h2, t, e, hn, ht, he⟩ (by simp) rfl

theorem allow_cfg (s : State) (ip : Nat) : (allow s ip).1.cfg = s.cfg := by
  unfold allow; split
  · rfl
  · split <;> rfl

theorem allow_now (s : State) (ip : Nat) : (allow s ip).1.now = s.now := by
  unfold allow; split
  · rfl
  · split <;> rfl

theorem allow_sessions (s : State) (ip : Nat) : (allow s ip).1.sessions = s.sessions := by
  unfold allow; split
  · rfl
  · split <;> rfl

theorem sessInv_login (s : State) (ip : Nat) (post pl : Bool) (u p : Cred) (h : SessInv s) :
    SessInv (login s ip post pl u p).1 := by
  unfold login
  split
  · exact h
  · split
    · exact h
    · have h1 := sessInv_allow s ip h
      generalize hs1 : allow s ip = r at h1
      obtain ⟨s1, a⟩ := r
      simp only at h1 ⊢
      split
      · exact h1
      · split
        · exact h1
        · split
          · exact h1
          · intro tok exp hl
            simp only at hl
            rw [lookup_insert] at hl
            by_cases ht : tok = s1.next
            · subst ht
              simp only [if_true, Option.some.injEq] at hl
              exact ⟨s1.hist, [], s1.now, by simp, by simp, Nat.le_refl _, hl.symm⟩
            · simp only [ht, if_false] at hl
              obtain ⟨h1', h2, t, e, hn, htl, he⟩ := h1 tok exp hl
              exact witness_append (t' := 0) (P := fun t => t ≤ s1.now ∧ exp = t + s1.cfg.ttl)
                [.issued s1.next s1.now] ⟨h1', h2, t, e, hn, htl, he⟩ (by simp) rfl

theorem sessInv_logout (s : State) (post : Bool) (c : Option Nat) (h : SessInv s) :
    SessInv (logout s post c).1 := by
  unfold logout
  split
  · exact h
  · split
    · rename_i tok'
      intro tok exp hl
      simp only at hl
      rw [lookup_erase] at hl
      by_cases ht : tok = tok'
      · simp [ht] at hl
      · simp only [ht, if_false] at hl
        obtain ⟨h1', h2, t, e, hn, htl, he⟩ := h tok exp hl
        exact witness_append (t' := 0) (P := fun t => t ≤ s.now ∧ exp = t + s.cfg.ttl)
          [.loggedOut tok'] ⟨h1', h2, t, e, hn, htl, he⟩ (by simp; exact ht) rfl
    · exact h

theorem sessInv_validate (s : State) (c : Option Nat) (h : SessInv s) : SessInv (validate s c).1 := by
  unfold validate
  split
  · exact h
  · split
    · exact h
    · split
      · intro tok exp hl
        simp only [lookup_erase] at hl
        split at hl
        · simp at hl
        · exact h tok exp hl
      · exact h

theorem sessInv_guard (s : State) (c : Option Nat) (h : SessInv s) : SessInv (guard s c).1 := by
  unfold guard
  split
  · exact h
  · have := sessInv_validate s c h
    generalize validate s c = r at this
    obtain ⟨s1, v⟩ := r
    simp only at this ⊢
    split <;> exact this

theorem sessInv_session (s : State) (c : Option Nat) (h : SessInv s) : SessInv (sessionInfo s c).1 := by
  unfold sessionInfo
  split
  · exact h
  · exact sessInv_validate s c h

theorem sessInv_step (s : State) (op : Op) (h : SessInv s) : SessInv (step s op) := by
  cases op with
  | tick d =>
    intro tok exp hl
    obtain ⟨h1, h2, t, e, hn, ht, he⟩ := h tok exp hl
    exact ⟨h1, h2, t, e, hn, by simp [step]; omega, he⟩
  | login ip post pl u p => exact sessInv_login s ip post pl u p h
  | logout post c => exact sessInv_logout s post c h
  | request c => exact sessInv_guard s c h
  | session c => exact sessInv_session s c h

theorem sessInv_run (cfg : Config) (ops : List Op) : SessInv (run cfg ops) := by
  unfold run
  have h0 := sessInv_init cfg
  generalize init cfg = s at h0
  induction ops generalizing s with
  | nil => simpa using h0
  | cons op ops ih => exact ih _ (sessInv_step s op h0)

theorem validate_cfg (s : State) (c : Option Nat) : (validate s c).1.cfg = s.cfg := by
  unfold validate
  split
  · rfl
  · split
    · rfl
    · split <;> rfl

theorem step_cfg (s : State) (op : Op) : (step s op).cfg = s.cfg := by
  cases op with
  | tick d => rfl
  | login ip post pl u p =>
    simp only [step]; unfold login
    split
    · rfl
    · split
      · rfl
      · have := allow_cfg s ip
        generalize allow s ip = r at this
        obtain ⟨s1, a⟩ := r
        simp only at this ⊢
        split
        · exact this
        · split
          · exact this
          · split <;> exact this
  | logout post c =>
    simp only [step]; unfold logout
    split
    · rfl
    · split <;> rfl
  | request c =>
    simp only [step]; unfold guard
    split
    · rfl
    · have := validate_cfg s c
      generalize validate s c = r at this
      obtain ⟨s1, v⟩ := r
      simp only at this ⊢
      split <;> exact this
  | session c =>
    simp only [step]; unfold sessionInfo
    split
    · rfl
    · exact validate_cfg s c

theorem run_cfg (cfg : Config) (ops : List Op) : (run cfg ops).cfg = cfg := by
  unfold run
  have h0 : (init cfg).cfg = cfg := rfl
  generalize init cfg = s at h0
  induction ops generalizing s with
  | nil => simpa using h0
  | cons op ops ih => exact ih _ (by rw [step_cfg]; exact h0)

/-- the guard itself: `served` only for a stored, unexpired token, with auth enabled -/
theorem guard_served {s : State} {c : Option Nat} (h : (guard s c).2 = .served) :
    s.cfg.enabled = true ∧ ∃ tok exp, c = some tok ∧ lookup s.sessions tok = some exp ∧ s.now ≤ exp := by
  unfold guard at h
  split at h
  · simp at h
  · rename_i hen
    refine ⟨by simpa using hen, ?_⟩
    cases c with
    | none => simp [validate] at h
    | some tok =>
      cases hl : lookup s.sessions tok with
      | none => simp [validate, hl] at h
      | some exp =>
        by_cases hexp : exp < s.now
        · simp [validate, hl, hexp] at h
        · exact ⟨tok, exp, rfl, hl, by omega⟩

/-- **C38 (sessions).** After any history, a requireAuth-wrapped endpoint answers a request only if
console auth is enabled and the request's cookie is a token that a successful login issued, that has
not been logged out since that login, and whose lifetime has not lapsed.  Everything else is
rejected (401/503) — the contrapositive. -/
theorem _root_.KafVerif.C38.protected_needs_session (cfg : Config) (ops : List Op) (c : Option Nat)
    (h : (guard (run cfg ops) c).2 = .served) :
    cfg.enabled = true ∧ ∃ tok, c = some tok ∧ Live (run cfg ops).hist tok (run cfg ops).now cfg.ttl := by
  have hcfg := run_cfg cfg ops
  obtain ⟨hen, tok, exp, hc, hl, hle⟩ := guard_served h
  rw [hcfg] at hen
  refine ⟨hen, tok, hc, ?_⟩
  obtain ⟨h1, h2, t, e, hn, ht, he⟩ := sessInv_run cfg ops tok exp hl
  rw [hcfg] at he
  exact ⟨h1, h2, t, e, hn, ht, by omega⟩

/-! ### (1b) completeness: a live session IS served (tokens are fresh ids) -/

theorem snoc_decomp {α : Type} {l h1 h2 : List α} {e x : α} (h : l ++ [e] = h1 ++ x :: h2) :
    (h2 = [] ∧ x = e ∧ l = h1) ∨ ∃ h2', h2 = h2' ++ [e] ∧ l = h1 ++ x :: h2' := by
  induction h1 generalizing l with
  | nil =>
    cases l with
    | nil =>
      simp only [List.nil_append, List.cons.injEq] at h
      exact Or.inl ⟨h.2.symm, h.1.symm, rfl⟩
    | cons a t =>
      simp only [List.cons_append, List.nil_append, List.cons.injEq] at h
      exact Or.inr ⟨t, h.2.symm, by rw [h.1]; rfl⟩
  | cons b h1 ih =>
    cases l with
    | nil =>
      simp only [List.nil_append, List.cons_append, List.cons.injEq] at h
      have := congrArg List.length h.2
      simp at this
    | cons a t =>
      simp only [List.cons_append, List.cons.injEq] at h
      rcases ih h.2 with ⟨e1, e2, e3⟩ | ⟨h2', e1, e2⟩
      · exact Or.inl ⟨e1, e2, by rw [h.1, e3]⟩
      · exact Or.inr ⟨h2', e1, by rw [h.1, e2]; rfl⟩

structure LiveInv (s : State) : Prop where
  fresh : ∀ tok t, Event.issued tok t ∈ s.hist → tok < s.next
  stored : ∀ h1 h2 tok t, s.hist = h1 ++ Event.issued tok t :: h2 → Event.loggedOut tok ∉ h2 →
    s.now ≤ t + s.cfg.ttl → lookup s.sessions tok = some (t + s.cfg.ttl)

theorem liveInv_init (cfg : Config) : LiveInv (init cfg) :=
  ⟨by simp [init], by intro h1 h2 tok t h; simp [init] at h⟩

/-- appending an event that is not an issue keeps the invariant (sessions unchanged) -/
theorem liveInv_append_neutral (s : State) (e : Event) (hits : List (Nat × List Nat))
    (hi : ∀ tok t, e ≠ Event.issued tok t) (h : LiveInv s) :
    LiveInv { s with hits := hits, hist := s.hist ++ [e] } := by
  refine ⟨?_, ?_⟩
  · intro tok t hm
    simp only [List.mem_append, List.mem_singleton] at hm
    rcases hm with hm | hm
    · exact h.fresh tok t hm
    · exact absurd hm.symm (hi tok t)
  · intro h1 h2 tok t hd hn hle
    rcases snoc_decomp hd with ⟨_, e2, _⟩ | ⟨h2', e1, e2⟩
    · exact absurd e2.symm (hi tok t)
    · subst e1
      exact h.stored h1 h2' tok t e2 (fun hm => hn (List.mem_append_left _ hm)) hle

theorem liveInv_allow (s : State) (ip : Nat) (h : LiveInv s) : LiveInv (allow s ip).1 := by
  unfold allow
  split
  · exact liveInv_append_neutral s (.attempt ip s.now) s.hits (by intro _ _ e; cases e) h
  · split
    · exact ⟨h.fresh, h.stored⟩
    · exact liveInv_append_neutral s (.attempt ip s.now) _ (by intro _ _ e; cases e) h

theorem liveInv_login (s : State) (ip : Nat) (post pl : Bool) (u p : Cred) (h : LiveInv s) :
    LiveInv (login s ip post pl u p).1 := by
  unfold login
  split
  · exact h
  · split
    · exact h
    · have h1 := liveInv_allow s ip h
      generalize allow s ip = r at h1
      obtain ⟨s1, a⟩ := r
      simp only at h1 ⊢
      split
      · exact h1
      · split
        · exact h1
        · split
          · exact h1
          · refine ⟨?_, ?_⟩
            · intro tok t hm
              simp only [List.mem_append, List.mem_singleton] at hm
              rcases hm with hm | hm
              · have := h1.fresh tok t hm; simp; omega
              · injection hm with e1 _; simp; omega
            · intro hh1 hh2 tok t hd hn hle
              simp only at hd hle ⊢
              rw [lookup_insert]
              rcases snoc_decomp hd with ⟨_, e2, _⟩ | ⟨h2', e1, e2⟩
              · injection e2 with e2a e2b
                subst e2a; subst e2b
                simp
              · have hlt := h1.fresh tok t (by rw [e2]; simp)
                have hne : ¬ tok = s1.next := by omega
                simp only [hne, if_false]
                subst e1
                exact h1.stored hh1 h2' tok t e2 (fun hm => hn (List.mem_append_left _ hm)) hle

theorem liveInv_logout (s : State) (post : Bool) (c : Option Nat) (h : LiveInv s) :
    LiveInv (logout s post c).1 := by
  unfold logout
  split
  · exact h
  · split
    · rename_i k
      refine ⟨?_, ?_⟩
      · intro tok t hm
        simp only [List.mem_append, List.mem_singleton] at hm
        rcases hm with hm | hm
        · exact h.fresh tok t hm
        · cases hm
      · intro h1 h2 tok t hd hn hle
        simp only at hd hle ⊢
        rcases snoc_decomp hd with ⟨_, e2, _⟩ | ⟨h2', e1, e2⟩
        · cases e2
        · subst e1
          have hk : ¬ tok = k := by
            intro e; subst e
            exact hn (by simp)
          rw [lookup_erase]
          simp only [hk, if_false]
          exact h.stored h1 h2' tok t e2 (fun hm => hn (List.mem_append_left _ hm)) hle
    · exact h

theorem liveInv_validate (s : State) (c : Option Nat) (h : LiveInv s) : LiveInv (validate s c).1 := by
  unfold validate
  split
  · exact h
  · rename_i k
    split
    · exact h
    · rename_i exp hl
      split
      · rename_i hexp
        refine ⟨h.fresh, ?_⟩
        intro h1 h2 tok t hd hn hle
        simp only at hd hle ⊢
        have := h.stored h1 h2 tok t hd hn hle
        rw [lookup_erase]
        by_cases hk : tok = k
        · subst hk
          rw [hl] at this
          injection this with this
          omega
        · simp only [hk, if_false]; exact this
      · exact h

theorem liveInv_step (s : State) (op : Op) (h : LiveInv s) : LiveInv (step s op) := by
  cases op with
  | tick d =>
    refine ⟨h.fresh, ?_⟩
    intro h1 h2 tok t hd hn hle
    simp only [step] at hd hle ⊢
    exact h.stored h1 h2 tok t hd hn (by omega)
  | login ip post pl u p => exact liveInv_login s ip post pl u p h
  | logout post c => exact liveInv_logout s post c h
  | request c =>
    simp only [step]; unfold guard
    split
    · exact h
    · have := liveInv_validate s c h
      generalize validate s c = r at this
      obtain ⟨s1, v⟩ := r
      simp only at this ⊢
      split <;> exact this
  | session c =>
    simp only [step]; unfold sessionInfo
    split
    · exact h
    · exact liveInv_validate s c h

theorem liveInv_run (cfg : Config) (ops : List Op) : LiveInv (run cfg ops) := by
  unfold run
  have h0 := liveInv_init cfg
  generalize init cfg = s at h0
  induction ops generalizing s with
  | nil => simpa using h0
  | cons op ops ih => exact ih _ (liveInv_step s op h0)

/-- **C38 (sessions, converse).** With console auth enabled, after any history, a request that
carries a token that a login issued, that was not logged out since and whose lifetime has not lapsed
IS answered by every requireAuth-wrapped endpoint (sessions are not lost early; tokens are the
model's fresh ids, standing for 32 random bytes). -/
theorem _root_.KafVerif.C38.live_session_served (cfg : Config) (hen : cfg.enabled = true) (ops : List Op)
    (tok : Nat) (h : Live (run cfg ops).hist tok (run cfg ops).now cfg.ttl) :
    (guard (run cfg ops) (some tok)).2 = .served := by
  obtain ⟨h1, h2, t, hd, hn, _, hle⟩ := h
  have hc := run_cfg cfg ops
  have hs := (liveInv_run cfg ops).stored h1 h2 tok t hd hn (by rw [hc]; exact hle)
  rw [hc] at hs
  unfold guard
  simp only [hc, hen, Bool.not_true, Bool.false_eq_true, if_false]
  unfold validate
  simp only [hs]
  have : ¬ (t + cfg.ttl < (run cfg ops).now) := by omega
  simp [this]

/-! ### (2) at most `limit` allowed login attempts per address in any sliding window -/

def attemptTime (ip : Nat) : Event → Option Nat
  | .attempt i t => if i = ip then some t else none
  | _ => none

/-- times of the login attempts of `ip` that got past the limiter, in order -/
def attempts (hist : List Event) (ip : Nat) : List Nat := hist.filterMap (attemptTime ip)

/-- `x ∈ (t − w, t]` -/
def inWindow (w t x : Nat) : Bool := decide (x ≤ t) && decide (t < x + w)

def windowCount (hist : List Event) (ip w t : Nat) : Nat := ((attempts hist ip).filter (inWindow w t)).length

theorem attempts_append (h : List Event) (e : Event) (ip : Nat) :
    attempts (h ++ [e]) ip = attempts h ip ++ (match attemptTime ip e with | some t => [t] | none => []) := by
  simp only [attempts, List.filterMap_append, List.filterMap_cons, List.filterMap_nil]
  cases attemptTime ip e <;> rfl

theorem prune_prune (w now now' : Nat) (l : List Nat) (h : now ≤ now') :
    prune w now' (prune w now l) = prune w now' l := by
  induction l with
  | nil => rfl
  | cons a t ih =>
    simp only [prune, List.filter_cons] at ih ⊢
    by_cases h1 : now < a + w
    · simp only [h1, decide_true, if_true, List.filter_cons]
      rw [ih]
    · have h2 : ¬ now' < a + w := by omega
      simp only [h1, h2, decide_false, Bool.false_eq_true, if_false]
      exact ih

theorem filter_length_le_of_imp {l : List Nat} {p q : Nat → Bool} (h : ∀ x ∈ l, p x = true → q x = true) :
    (l.filter p).length ≤ (l.filter q).length := by
  induction l with
  | nil => simp
  | cons a t ih =>
    have iht := ih (fun x hx => h x (List.mem_cons_of_mem _ hx))
    simp only [List.filter_cons]
    by_cases hp : p a = true
    · have hq := h a (List.mem_cons_self) hp
      simp only [hp, hq, if_true, List.length_cons]; omega
    · simp only [hp, Bool.false_eq_true, if_false]
      by_cases hq : q a = true
      · simp only [hq, if_true, List.length_cons]; omega
      · simp only [hq, Bool.false_eq_true, if_false]; exact iht

structure RLInv (s : State) : Prop where
  past : ∀ ip x, x ∈ attempts s.hist ip → x ≤ s.now
  sync : ∀ ip, prune s.cfg.window s.now (hitsOf s.hits ip) = prune s.cfg.window s.now (attempts s.hist ip)
  bound : ∀ ip t, windowCount s.hist ip s.cfg.window t ≤ s.cfg.limit

theorem rlInv_init (cfg : Config) : RLInv (init cfg) :=
  ⟨by simp [init, attempts], by simp [init, attempts, hitsOf, lookup], by simp [init, windowCount, attempts]⟩

/-- history events that are not attempts do not disturb the limiter invariant -/
theorem rlInv_hist (s : State) (e : Event) (he : ∀ ip, attemptTime ip e = none) (sess : List (Nat × Nat)) (nx : Nat)
    (h : RLInv s) : RLInv { s with sessions := sess, next := nx, hist := s.hist ++ [e] } := by
  have ha : ∀ ip, attempts (s.hist ++ [e]) ip = attempts s.hist ip := by
    intro ip; rw [attempts_append, he ip]; simp
  exact ⟨by intro ip x hx; simp only [ha] at hx; exact h.past ip x hx,
         by intro ip; simp only [ha]; exact h.sync ip,
         by intro ip t; simp only [windowCount, ha]; exact h.bound ip t⟩

theorem rlInv_allow (s : State) (ip : Nat) (hon : limiterOff s.cfg = false) (h : RLInv s) :
    RLInv (allow s ip).1 := by
  have hw : 0 < s.cfg.window := by
    simp only [limiterOff, Bool.or_eq_false_iff, beq_eq_false_iff_ne] at hon; omega
  unfold allow
  simp only [hon, Bool.false_eq_true, if_false]
  split
  · -- denied: only the pruned slice is stored back
    refine ⟨h.past, ?_, h.bound⟩
    intro ip'
    simp only [hitsOf_insert]
    split
    · rename_i e; subst e
      simp only [pruned]
      rw [prune_prune _ _ _ _ (Nat.le_refl _)]
      exact h.sync ip'
    · exact h.sync ip'
  · rename_i hlt
    have hatt : ∀ ip', attempts (s.hist ++ [Event.attempt ip s.now]) ip' =
        if ip' = ip then attempts s.hist ip' ++ [s.now] else attempts s.hist ip' := by
      intro ip'
      rw [attempts_append]
      simp only [attemptTime]
      by_cases e : ip = ip'
      · subst e; simp
      · have : ¬ ip' = ip := fun x => e x.symm
        simp [e, this]
    refine ⟨?_, ?_, ?_⟩
    · intro ip' x hx
      simp only [hatt] at hx
      split at hx
      · simp only [List.mem_append, List.mem_singleton] at hx
        rcases hx with hx | hx
        · exact h.past ip' x hx
        · simp [hx]
      · exact h.past ip' x hx
    · intro ip'
      simp only [hitsOf_insert, hatt]
      split
      · rename_i e; subst e
        simp only [pruned, prune, List.filter_append]
        have := h.sync ip'
        simp only [prune] at this
        rw [List.filter_filter]
        simp only [Bool.and_self]
        rw [this]
      · exact h.sync ip'
    · intro ip' t
      simp only [windowCount, hatt]
      split
      · rename_i e; subst e
        simp only [List.filter_append, List.length_append]
        by_cases hin : inWindow s.cfg.window t s.now = true
        · have hle : ((attempts s.hist ip').filter (inWindow s.cfg.window t)).length ≤
              (prune s.cfg.window s.now (attempts s.hist ip')).length := by
            unfold prune
            apply filter_length_le_of_imp
            intro x hx hp
            have hxn := h.past ip' x hx
            simp only [inWindow, Bool.and_eq_true, decide_eq_true_eq] at hp hin ⊢
            omega
          rw [← h.sync ip'] at hle
          simp only [pruned] at hlt
          simp only [List.filter_cons, hin, if_true, List.filter_nil, List.length_cons, List.length_nil]
          omega
        · have := h.bound ip' t
          simp only [windowCount] at this
          simp only [List.filter_cons, hin, List.filter_nil]
          simpa using this
      · exact h.bound ip' t

theorem rlInv_validate (s : State) (c : Option Nat) (h : RLInv s) : RLInv (validate s c).1 := by
  unfold validate
  split
  · exact h
  · split
    · exact h
    · split
      · exact ⟨h.past, h.sync, h.bound⟩
      · exact h

theorem rlInv_step (s : State) (op : Op) (hon : limiterOff s.cfg = false) (h : RLInv s) : RLInv (step s op) := by
  cases op with
  | tick d =>
    refine ⟨?_, ?_, h.bound⟩
    · intro ip x hx; have := h.past ip x hx; simp only [step]; omega
    · intro ip
      simp only [step]
      rw [← prune_prune s.cfg.window s.now (s.now + d) (hitsOf s.hits ip) (by omega), h.sync ip,
        prune_prune _ _ _ _ (by omega)]
  | login ip post pl u p =>
    simp only [step]; unfold login
    split
    · exact h
    · split
      · exact h
      · have h1 := rlInv_allow s ip hon h
        generalize allow s ip = r at h1
        obtain ⟨s1, a⟩ := r
        simp only at h1 ⊢
        split
        · exact h1
        · split
          · exact h1
          · split
            · exact h1
            · exact rlInv_hist s1 (.issued s1.next s1.now) (fun _ => rfl) _ _ h1
  | logout post c =>
    simp only [step]; unfold logout
    split
    · exact h
    · split
      · rename_i tok
        exact rlInv_hist s (.loggedOut tok) (fun _ => rfl) _ _ h
      · exact h
  | request c =>
    simp only [step]; unfold guard
    split
    · exact h
    · have := rlInv_validate s c h
      generalize validate s c = r at this
      obtain ⟨s1, v⟩ := r
      simp only at this ⊢
      split <;> exact this
  | session c =>
    simp only [step]; unfold sessionInfo
    split
    · exact h
    · exact rlInv_validate s c h

theorem rlInv_run (cfg : Config) (hon : limiterOff cfg = false) (ops : List Op) : RLInv (run cfg ops) := by
  unfold run
  have h0 := rlInv_init cfg
  have hc : (init cfg).cfg = cfg := rfl
  generalize init cfg = s at h0 hc
  induction ops generalizing s with
  | nil => simpa using h0
  | cons op ops ih =>
    exact ih _ (rlInv_step s op (by rw [hc]; exact hon) h0) (by rw [step_cfg]; exact hc)

/-- **C38 (rate limit).** With a limiter configured (`limit > 0`, `window > 0`), after any history,
for every client address and every instant `t`, the number of that address's login attempts that
were let through in the half-open window `(t − window, t]` is at most `limit`.  Attempts answered
429 are not recorded by the code; the bound is on the attempts that were not rejected. -/
theorem _root_.KafVerif.C38.rate_limit (cfg : Config) (hon : limiterOff cfg = false) (ops : List Op)
    (ip t : Nat) : windowCount (run cfg ops).hist ip cfg.window t ≤ cfg.limit := by
  have := (rlInv_run cfg hon ops).bound ip t
  rwa [run_cfg] at this

/-- every login that is not answered 405/503/429 is recorded as an attempt (so the bound above is
about all credential checks the server performed, successful or not) -/
theorem _root_.KafVerif.C38.checked_login_is_attempt (s : State) (ip : Nat) (post pl : Bool) (u p : Cred)
    (h : (login s ip post pl u p).2 ≠ .method ∧ (login s ip post pl u p).2 ≠ .disabled ∧
         (login s ip post pl u p).2 ≠ .limited) :
    Event.attempt ip s.now ∈ (login s ip post pl u p).1.hist := by
  obtain ⟨h1, h2, h3⟩ := h
  unfold login at h1 h2 h3 ⊢
  split
  · rename_i hp; simp [hp] at h1
  · rename_i hp
    split
    · rename_i he; simp [hp, he] at h2
    · rename_i he
      simp only [hp, he, Bool.false_eq_true, if_false] at h3
      have hal : (allow s ip).2 = true → Event.attempt ip s.now ∈ (allow s ip).1.hist ∧ (allow s ip).1.now = s.now := by
        unfold allow
        split
        · intro _; simp
        · split
          · simp
          · intro _; simp
      generalize allow s ip = r at h3 hal
      obtain ⟨s1, a⟩ := r
      simp only at h3 hal ⊢
      cases a with
      | false => simp at h3
      | true =>
        obtain ⟨hm, hn⟩ := hal rfl
        simp only [Bool.not_true, Bool.false_eq_true, if_false]
        split
        · exact hm
        · split
          · exact hm
          · simp only [List.mem_append, List.mem_singleton]; left; exact hm

/-! ### (2b) r3: the limiter's bookkeeping for one address does not depend on the other addresses

The code writes `l.hits[key]` only, never deletes from `l.hits`, and decides from `l.hits[key]`,
`limit`, `window` and the clock alone.  A table-size dependent prune (seeded change C38-r3-1) breaks
exactly these three statements. -/

/-- `Allow(k)` leaves the recorded history of every other address `k'` untouched -/
theorem _root_.KafVerif.C38.limiter_addr_independent (s : State) (k k' : Nat) (h : k' ≠ k) :
    hitsOf (allow s k).1.hits k' = hitsOf s.hits k' := by
  unfold allow
  split
  · rfl
  · split <;> simp [hitsOf_insert, h]

/-- the decision of `Allow(ip)` and the history it leaves for `ip` are a function of the configuration,
the clock and `ip`'s own recorded history — whatever else the table holds (any number of addresses) -/
theorem _root_.KafVerif.C38.limiter_decision_local (s1 s2 : State) (ip : Nat) (hc : s1.cfg = s2.cfg)
    (hn : s1.now = s2.now) (hh : hitsOf s1.hits ip = hitsOf s2.hits ip) :
    (allow s1 ip).2 = (allow s2 ip).2 ∧ hitsOf (allow s1 ip).1.hits ip = hitsOf (allow s2 ip).1.hits ip := by
  have hp : pruned s1 ip = pruned s2 ip := by simp only [pruned, hc, hn, hh]
  unfold allow
  rw [hc, hp, hn]
  split
  · exact ⟨rfl, hh⟩
  · split <;> simp [hitsOf_insert]

def isLoginOf (ip : Nat) : Op → Bool
  | .login i _ _ _ _ => i == ip
  | _ => false

theorem validate_hits (s : State) (c : Option Nat) : (validate s c).1.hits = s.hits := by
  unfold validate
  split
  · rfl
  · split
    · rfl
    · split <;> rfl

theorem step_hits_other (s : State) (op : Op) (ip : Nat) (h : isLoginOf ip op = false) :
    hitsOf (step s op).hits ip = hitsOf s.hits ip := by
  cases op with
  | tick d => rfl
  | login i post pl u p =>
    have hne : ip ≠ i := by
      intro e; subst e; simp [isLoginOf] at h
    simp only [step]; unfold login
    split
    · rfl
    · split
      · rfl
      · have h1 := KafVerif.C38.limiter_addr_independent s i ip hne
        generalize allow s i = r at h1
        obtain ⟨s1, a⟩ := r
        simp only at h1 ⊢
        split
        · exact h1
        · split
          · exact h1
          · split <;> exact h1
  | logout post c =>
    simp only [step]; unfold logout
    split
    · rfl
    · split <;> rfl
  | request c =>
    simp only [step]; unfold guard
    split
    · rfl
    · have := validate_hits s c
      generalize validate s c = r at this
      obtain ⟨s1, v⟩ := r
      simp only at this ⊢
      split <;> simp [this]
  | session c =>
    simp only [step]; unfold sessionInfo
    split
    · rfl
    · rw [validate_hits]

/-- **C38 (limiter, state independence).** Whatever happens in between — any number of login attempts
of any number of OTHER addresses, logouts, requests, time passing — the history the limiter keeps for
`ip` is unchanged: an address cannot have its budget reset by traffic it did not send. -/
theorem _root_.KafVerif.C38.limiter_run_local (s : State) (ops : List Op) (ip : Nat)
    (h : ∀ op ∈ ops, isLoginOf ip op = false) :
    hitsOf (ops.foldl step s).hits ip = hitsOf s.hits ip := by
  induction ops generalizing s with
  | nil => rfl
  | cons op ops ih =>
    simp only [List.foldl_cons]
    rw [ih (step s op) (fun o ho => h o (List.mem_cons_of_mem _ ho))]
    exact step_hits_other s op ip (h op List.mem_cons_self)

/-! ### (1c) r3: the stored expiry is the login instant plus ttl, exactly -/

/-- a successful login stores, for the token it hands out, the expiry `now + ttl` — not rounded, not
extended (seeded change C38-r3-2 rounds it to the wall-clock second grid) -/
theorem _root_.KafVerif.C38.stored_expiry_exact (s : State) (ip : Nat) (post pl : Bool) (u p : Cred) (tok : Nat)
    (h : (login s ip post pl u p).2 = .ok tok) :
    lookup (login s ip post pl u p).1.sessions tok = some (s.now + s.cfg.ttl) := by
  unfold login at h ⊢
  split
  · rename_i hp; simp [hp] at h
  · rename_i hp
    split
    · rename_i he; simp [hp, he] at h
    · rename_i he
      simp only [hp, he, Bool.false_eq_true, if_false] at h
      have hn := allow_now s ip
      have hc := allow_cfg s ip
      generalize allow s ip = r at h hn hc
      obtain ⟨s1, a⟩ := r
      simp only at h hn hc ⊢
      split
      · rename_i h1; simp [h1] at h
      · rename_i h1
        split
        · rename_i h2; simp [h1, h2] at h
        · rename_i h2
          split
          · rename_i h3; simp [h1, h2, h3] at h
          · rename_i h3
            simp only [h1, h2, h3, Bool.false_eq_true, if_false, LoginOut.ok.injEq] at h
            subst h
            simp only [lookup_insert, if_true, hn, hc]

/-- after any history, every stored session carries the expiry `t + ttl` of the login (at `t`) that
issued it (the `exp = t + ttl` conjunct of `SessInv`, for `run`) -/
theorem _root_.KafVerif.C38.stored_expiry_exact_run (cfg : Config) (ops : List Op) (tok exp : Nat)
    (h : lookup (run cfg ops).sessions tok = some exp) :
    ∃ t, Event.issued tok t ∈ (run cfg ops).hist ∧ t ≤ (run cfg ops).now ∧ exp = t + cfg.ttl := by
  obtain ⟨h1, h2, t, e, _, ht, he⟩ := sessInv_run cfg ops tok exp h
  rw [run_cfg] at he
  exact ⟨t, by rw [e]; simp, ht, he⟩

/-! ### (3) the route table of `NewMux` (regenerated from the source on every run) -/

open KafVerif.Gen.C38 in
/-- every registered pattern under `/ui/api/` except `/ui/api/auth/…` is wrapped by requireAuth
(the conditional LFS routes included) -/
theorem _root_.KafVerif.C38.routes_guarded :
    ∀ r ∈ routes, protectedPattern r.pattern = true → r.wrapped = true := by decide

open KafVerif.Gen.C38 in
/-- the table is not empty: at least one protected endpoint is registered -/
theorem _root_.KafVerif.C38.routes_nonvacuous :
    1 ≤ (routes.filter fun r => protectedPattern r.pattern).length := by decide

theorem best_mem {rs : List Route} {path : List Char} {r : Route} (h : best rs path = some r) :
    r ∈ rs ∧ matchesPath r.pattern path = true := by
  induction rs generalizing r with
  | nil => simp [best] at h
  | cons a t ih =>
    unfold best at h
    split at h
    · rename_i r' hb
      have := ih hb
      split at h
      · rename_i hc
        simp only [Option.some.injEq] at h; subst h
        simp only [Bool.and_eq_true] at hc
        exact ⟨List.mem_cons_self, hc.1⟩
      · simp only [Option.some.injEq] at h; subst h
        exact ⟨List.mem_cons_of_mem _ this.1, this.2⟩
    · split at h
      · rename_i hc
        simp only [Option.some.injEq] at h; subst h
        exact ⟨List.mem_cons_self, hc⟩
      · simp at h

theorem dispatch_mem {rs : List Route} {path : List Char} {r : Route} (h : dispatch rs path = .route r) :
    r ∈ rs ∧ matchesPath r.pattern path = true := by
  unfold dispatch at h
  split at h
  · simp at h
  · split at h
    · rename_i r' hb
      simp only [Disp.route.injEq] at h; subst h
      exact best_mem hb
    · simp at h

open KafVerif.Gen.C38 in
/-- **C38 (mux).** Whatever the request path, if `ServeMux` dispatches it to a console API
endpoint (a pattern under `/ui/api/` other than `/ui/api/auth/…`), the request is answered only
with a live session: served ⇒ token issued by a login, not logged out since, not expired. -/
theorem _root_.KafVerif.C38.mux_protected_needs_session (cfg : Config) (ops : List Op)
    (path : List Char) (c : Option Nat) (r : Route)
    (hd : dispatch routes path = .route r) (hp : protectedPattern r.pattern = true) :
    (muxRequest routes (run cfg ops) path c).2 = .guarded (guard (run cfg ops) c).2 ∧
    ((guard (run cfg ops) c).2 = .served →
      cfg.enabled = true ∧ ∃ tok, c = some tok ∧ Live (run cfg ops).hist tok (run cfg ops).now cfg.ttl) := by
  have hw := KafVerif.C38.routes_guarded r (dispatch_mem hd).1 hp
  refine ⟨?_, KafVerif.C38.protected_needs_session cfg ops c⟩
  unfold muxRequest
  rw [hd]
  simp [hw]

/-! ### non-vacuity -/

/-- a served request exists (the hypothesis of `protected_needs_session` is satisfiable), and an
expired / logged-out / unknown token is rejected -/
example : (guard (run ⟨true, 100, 2, 60⟩ [.login 1 true true .ok .ok, .tick 100]) (some 0)).2 = .served := by decide
example : (guard (run ⟨true, 100, 2, 60⟩ [.login 1 true true .ok .ok, .tick 101]) (some 0)).2 = .unauth := by decide
example : (guard (run ⟨true, 100, 2, 60⟩ [.login 1 true true .ok .ok, .logout true (some 0)]) (some 0)).2 = .unauth := by decide
example : (guard (run ⟨true, 100, 2, 60⟩ [.login 1 true true .ok .bad]) (some 0)).2 = .unauth := by decide
/-- the limiter bites: third attempt in the window is refused, and is allowed again after it slid -/
example : (login (run ⟨true, 100, 2, 60⟩ [.login 1 true true .ok .bad, .tick 59, .login 1 true false .ok .ok]) 1 true true .ok .ok).2
    = .limited := by decide
example : (login (run ⟨true, 100, 2, 60⟩ [.login 1 true true .ok .bad, .tick 59, .login 1 true false .ok .ok, .tick 1]) 1 true true .ok .ok).2
    = .ok 0 := by decide
example : windowCount (run ⟨true, 100, 2, 60⟩ [.login 1 true true .ok .bad, .tick 59, .login 1 true false .ok .ok]).hist 1 60 59 = 2 := by decide
example : limiterOff ⟨true, 43200, 20, 60⟩ = false := by decide
/-- r3 non-vacuity: the probing address keeps its history across attempts of other addresses (and is
still refused), and a login's stored expiry is exactly now + ttl -/
example : (login (run ⟨true, 100, 2, 60⟩ [.login 1 true true .ok .bad, .tick 30, .login 1 true true .ok .bad, .tick 30,
    .login 7 true true .ok .bad, .login 8 true true .ok .bad, .login 1 true true .ok .bad]) 1 true true .ok .ok).2 = .limited := by decide
example : hitsOf (run ⟨true, 100, 2, 60⟩ [.login 1 true true .ok .bad, .login 7 true true .ok .bad, .login 8 true true .ok .bad]).hits 1 = [0] := by decide
example : lookup (login (run ⟨true, 100, 2, 60⟩ [.tick 7]) 1 true true .ok .ok).1.sessions 0 = some 107 := by decide
open KafVerif.Gen.C38 in
example : dispatch routes "/ui/api/status/topics/orders".toList = .route ⟨"/ui/api/status/topics/".toList, true, false⟩ := by decide

end KafVerif.Console
