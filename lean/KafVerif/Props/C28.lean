import KafVerif.Model.ProxyMetadata
import KafVerif.Model.ProxyDispatch
/-!
C28 — Proxy metadata points clients at the proxy, topology intact.

Statement (properties.jsonl): a metadata, coordinator or not-ready reply from the proxy names
only the proxy as broker, partition leader and coordinator.  It keeps the set of topics,
partitions, topic IDs, error codes and leader epochs from the cluster metadata.
Quantifier: every cluster metadata snapshot and request (by name, by topic ID, all topics).

All theorems are for EVERY snapshot `s`, EVERY request `req`, EVERY advertised host/port.
`buildResponse` is the code after fixes/C28-metadata-error-topic-leaders.patch; the code as
found (`buildResponseOld`) violates `only_proxy` — witness `old_violates`.
-/
namespace KafVerif.ProxyMetadata

/-! ### helper lemmas -/

theorem lastWith_some {p : Topic → Bool} {l : List Topic} {t : Topic} (h : lastWith p l = some t) :
    t ∈ l ∧ p t = true := by
  induction l with
  | nil => simp [lastWith] at h
  | cons a ts ih =>
    unfold lastWith at h
    split at h
    · rename_i x hx
      cases h
      have := ih hx
      exact ⟨List.mem_cons_of_mem _ this.1, this.2⟩
    · by_cases hp : p a = true
      · simp [hp] at h; subst h; exact ⟨List.mem_cons_self, hp⟩
      · simp [hp] at h

theorem lastWith_none {p : Topic → Bool} {l : List Topic} (h : lastWith p l = none) :
    ∀ t ∈ l, p t = false := by
  induction l with
  | nil => simp
  | cons a ts ih =>
    unfold lastWith at h
    split at h
    · cases h
    · rename_i hn
      by_cases hp : p a = true
      · simp [hp] at h
      · intro t ht
        rcases List.mem_cons.mp ht with rfl | ht
        · simpa using hp
        · exact ih hn t ht

theorem scanReq_fst (ts : List ReqTopic) (acc : List String) :
    (scanReq ts acc).1 = ts.any (fun t => t.tid != .zero) := by
  induction ts generalizing acc with
  | nil => simp [scanReq]
  | cons t ts ih =>
    unfold scanReq
    by_cases h : t.tid = .zero
    · simp [h, ih]
    · simp [h]

theorem scanReq_snd (ts : List ReqTopic) (acc : List String)
    (h : ts.any (fun t => t.tid != .zero) = false) :
    (scanReq ts acc).2 = acc ++ ts.filterMap (·.name) := by
  induction ts generalizing acc with
  | nil => simp [scanReq]
  | cons t ts ih =>
    simp only [List.any_cons, Bool.or_eq_false_iff] at h
    have ht : t.tid = .zero := by simpa using h.1
    unfold scanReq
    simp only [ht, ne_eq, not_true_eq_false, ↓reduceIte]
    rw [ih _ h.2]
    cases hn : t.name <;> simp [hn]

theorem rewritePart_only (p : Part) : partOnlyProxy (rewritePart p) = true := by
  simp [partOnlyProxy, rewritePart]

theorem rewriteTopic_shape (t : Topic) : topicShape (rewriteTopic t) = topicShape t := by
  simp [topicShape, rewriteTopic, List.map_map, Function.comp_def, partShape, rewritePart]

/-! ### (1) only the proxy is named -/

theorem buildResponse_only (m : Meta) (host : String) (port : Int) :
    onlyProxy (buildResponse m host port) host port = true := by
  simp [onlyProxy, buildResponse, rewriteTopic, List.all_map, rewritePart_only, Function.comp_def]

/-- **C28 (only the proxy).** Whatever the snapshot and whatever the request form, the Metadata
reply lists exactly one broker — node 0 at the advertised host and port —, names node 0 as
controller, and every partition of every topic in the reply has leader 0, replicas [0], ISR [0]
and no offline replicas. -/
theorem _root_.KafVerif.C28.only_proxy (s : Meta) (req : Option (List ReqTopic)) (host : String) (port : Int) :
    onlyProxy (handleMetadata s req host port) host port = true :=
  buildResponse_only _ host port

/-- The same after version masking, for every Metadata version that carries a controller id. -/
theorem _root_.KafVerif.C28.only_proxy_wire (v : Nat) (hv : v ≥ 1) (s : Meta) (req : Option (List ReqTopic))
    (host : String) (port : Int) :
    onlyProxy (wire v (handleMetadata s req host port)) host port = true := by
  have hv' : (if v ≥ 1 then (0 : Int) else -1) = 0 := by simp [hv]
  simp [onlyProxy, wire, handleMetadata, buildResponse, hv', List.all_map, Function.comp_def,
    wireTopic, rewriteTopic, wirePart, partOnlyProxy, rewritePart]

/-- **C28 (coordinator).** FindCoordinator answers node 0 at the advertised host and port, no error. -/
theorem _root_.KafVerif.C28.coordinator_only_proxy (host : String) (port : Int) :
    findCoordinator host port = { err := 0, node := 0, host := host, port := port } := rfl

/-- **C28 (not ready).** A not-ready Metadata reply names no broker at all (empty broker list,
controller -1, no partitions) and a not-ready FindCoordinator reply names no node (-1) and
carries REQUEST_TIMED_OUT; the requested topic entries are echoed with name and id. -/
theorem _root_.KafVerif.C28.not_ready_names_nobody (req : Option (List ReqTopic)) :
    namesNobody (notReadyMetadata req) = true ∧ (notReadyMetadata req).controller = -1 ∧
    (notReadyMetadata req).topics.map (fun t => (t.name, t.tid, t.err)) =
      (req.getD []).map (fun t => (t.name, t.tid, REQUEST_TIMED_OUT)) ∧
    notReadyCoordinator.node = -1 ∧ notReadyCoordinator.err = REQUEST_TIMED_OUT ∧
    notReadyCoordinator.host = "" := by
  refine ⟨?_, rfl, ?_, rfl, rfl, rfl⟩
  · simp [namesNobody, notReadyMetadata, List.all_map]
  · simp [notReadyMetadata, List.map_map, Function.comp_def]

/-! ### (2) topology kept -/

theorem buildResponse_shapes (m : Meta) (host : String) (port : Int) :
    (buildResponse m host port).topics.map topicShape = m.topics.map topicShape := by
  simp [buildResponse, List.map_map, Function.comp_def, rewriteTopic_shape]

/-- **C28 (topology, all topics).** For an all-topics request (nil list, and — as coded — an
empty list) the reply's topic list maps 1-1, in order, onto the snapshot's topic list with equal
name, topic id, error code, is-internal flag and, per partition, equal id, error code and
leader epoch. -/
theorem _root_.KafVerif.C28.topology_all (s : Meta) (host : String) (port : Int) :
    (handleMetadata s none host port).topics.map topicShape = (storeView s).topics.map topicShape ∧
    (handleMetadata s (some []) host port).topics.map topicShape = (storeView s).topics.map topicShape := by
  constructor <;>
    simp [handleMetadata, buildResponse_shapes, loadMetadata, storeMetadata, scanReq]

/-- What a by-name request must return for one name: the snapshot's topic of that name (the
last one if the snapshot lists the name twice) or UNKNOWN_TOPIC_OR_PARTITION. -/
def expectByName (s : Meta) (n : String) : Shape :=
  match lastWith (fun t => t.name == some n) (storeView s).topics with
  | some t => topicShape t
  | none => (some n, .zero, UNKNOWN_TOPIC_OR_PARTITION, false, [])

/-- **C28 (topology, by name).** When no requested entry carries a topic id and at least one
carries a name, the reply has exactly one entry per requested name, in request order; each is
the snapshot's topic of that name with everything kept, or UNKNOWN_TOPIC_OR_PARTITION. -/
theorem _root_.KafVerif.C28.topology_by_name (s : Meta) (ts : List ReqTopic) (host : String) (port : Int)
    (hnoid : ts.any (fun t => t.tid != .zero) = false) (hne : ts.filterMap (·.name) ≠ []) :
    (handleMetadata s (some ts) host port).topics.map topicShape =
      (ts.filterMap (·.name)).map (expectByName s) := by
  have h1 : (scanReq ts []).1 = false := by rw [scanReq_fst]; exact hnoid
  have h2 : (scanReq ts []).2 = ts.filterMap (·.name) := by rw [scanReq_snd _ _ hnoid]; simp
  have hne' : (ts.filterMap (·.name)).isEmpty = false := by
    cases h : ts.filterMap (·.name) with
    | nil => exact absurd h hne
    | cons _ _ => rfl
  simp only [handleMetadata, buildResponse_shapes, loadMetadata, h1, h2, storeMetadata, hne',
    Bool.not_false, Bool.false_eq_true, ↓reduceIte, filterTopics, List.map_map]
  apply List.map_congr_left
  intro n _
  simp only [Function.comp, expectByName]
  split <;> simp_all [topicShape]

/-- What a by-id request must return for one id. -/
def expectById (s : Meta) (id : TopicId) : Shape :=
  match lastWith (fun t => t.tid == id) (storeView s).topics with
  | some t => topicShape t
  | none => (none, id, UNKNOWN_TOPIC_ID, false, [])

/-- **C28 (topology, by id).** When some requested entry carries a topic id, the reply has
exactly one entry per requested non-zero id, in request order, each with that id: the snapshot's
topic with everything kept, or UNKNOWN_TOPIC_ID.  (Entries without an id are dropped — as
Apache Kafka does.) -/
theorem _root_.KafVerif.C28.topology_by_id (s : Meta) (ts : List ReqTopic) (host : String) (port : Int)
    (hid : ts.any (fun t => t.tid != .zero) = true) :
    let ids := (ts.filter fun t => t.tid != .zero).map (·.tid)
    (handleMetadata s (some ts) host port).topics.map topicShape = ids.map (expectById s) ∧
    (handleMetadata s (some ts) host port).topics.map (·.tid) = ids := by
  have h1 : (scanReq ts []).1 = true := by rw [scanReq_fst]; exact hid
  constructor
  · simp only [handleMetadata, buildResponse_shapes, loadMetadata, h1, storeMetadata,
      Bool.not_true, Bool.false_eq_true, ↓reduceIte, byId, List.map_map, List.isEmpty_nil]
    apply List.map_congr_left
    intro t _
    simp only [Function.comp, expectById]
    split <;> simp_all [topicShape]
  · simp only [handleMetadata, buildResponse, loadMetadata, h1, storeMetadata,
      Bool.not_true, Bool.false_eq_true, ↓reduceIte, byId, List.map_map, List.isEmpty_nil]
    apply List.map_congr_left
    intro t _
    simp only [Function.comp, rewriteTopic]
    split
    · rename_i x hx
      have := (lastWith_some hx).2
      simpa using this
    · rfl

/-- Every by-id reply entry that is not UNKNOWN_TOPIC_ID really is a snapshot topic. -/
theorem _root_.KafVerif.C28.by_id_from_snapshot (s : Meta) (id : TopicId) (t : Topic)
    (h : lastWith (fun t => t.tid == id) (storeView s).topics = some t) : t ∈ (storeView s).topics ∧ t.tid = id := by
  have := lastWith_some h
  exact ⟨this.1, by simpa using this.2⟩


/-- The declarative reading of "keeps the topology" for the three request forms. -/
def expectedShapes (s : Meta) (req : Option (List ReqTopic)) :
    List Shape :=
  match req with
  | none => (storeView s).topics.map topicShape
  | some ts =>
    if ts.any (fun t => t.tid != .zero) then ((ts.filter fun t => t.tid != .zero).map (·.tid)).map (expectById s)
    else if (ts.filterMap (·.name)).isEmpty then (storeView s).topics.map topicShape
    else (ts.filterMap (·.name)).map (expectByName s)

/-- **C28 (topology kept), one statement for every request form.**  This is the predicate the
monitor evaluates on the implementation's replies. -/
theorem _root_.KafVerif.C28.topology_kept (s : Meta) (req : Option (List ReqTopic)) (host : String) (port : Int) :
    (handleMetadata s req host port).topics.map topicShape = expectedShapes s req := by
  cases req with
  | none => exact (KafVerif.C28.topology_all s host port).1
  | some ts =>
    unfold expectedShapes
    by_cases hid : ts.any (fun t => t.tid != .zero) = true
    · simp only [hid, ↓reduceIte]
      exact (KafVerif.C28.topology_by_id s ts host port hid).1
    · have hid' : ts.any (fun t => t.tid != .zero) = false := by simpa using hid
      simp only [hid', Bool.false_eq_true, ↓reduceIte]
      cases hn : ts.filterMap (·.name) with
      | nil =>
        have h1 : (scanReq ts []).1 = false := by rw [scanReq_fst]; exact hid'
        have h2 : (scanReq ts []).2 = [] := by rw [scanReq_snd _ _ hid', hn]; rfl
        simp [handleMetadata, buildResponse_shapes, loadMetadata, h1, h2, storeMetadata]
      | cons a l =>
        have := KafVerif.C28.topology_by_name s ts host port hid' (by simp [hn])
        simpa [hn] using this


/-- What the store's normalisation (`cloneTopics`) does to the snapshot: names, error codes,
is-internal flags and partitions are untouched; a non-zero topic id is kept; an all-zero one is
replaced by the id derived from the topic's name. -/
theorem _root_.KafVerif.C28.store_view_keeps (s : Meta) :
    (storeView s).topics.map (fun t => (t.name.getD "", t.err, t.internal, t.parts)) =
      s.topics.map (fun t => (t.name.getD "", t.err, t.internal, t.parts)) ∧
    (storeView s).topics.map (·.tid) =
      s.topics.map (fun t => if t.tid = .zero then .ofName (t.name.getD "") else t.tid) ∧
    (storeView s).brokers = s.brokers ∧ (storeView s).cluster = s.cluster := by
  refine ⟨?_, ?_, rfl, rfl⟩ <;> simp [storeView, normTopic, List.map_map, Function.comp_def]

/-! ### concurrent clients -/

/-- **C28 (no cross-talk).** However many Metadata requests overlap, and whatever the others ask
for, the reply to each request is the function `handleMetadata` of the snapshot and of ITS OWN
request only — hence it satisfies `only_proxy` and `topology_kept` for its own request. -/
theorem _root_.KafVerif.C28.reply_depends_only_on_own_request (s : Meta)
    (pre post : List (Option (List ReqTopic))) (req : Option (List ReqTopic)) (host : String) (port : Int) :
    (serveConcurrent s (pre ++ req :: post) host port)[pre.length]? = some (handleMetadata s req host port) ∧
    ∀ r, (serveConcurrent s (pre ++ req :: post) host port)[pre.length]? = some r →
      onlyProxy r host port = true ∧ r.topics.map topicShape = expectedShapes s req := by
  have h : (serveConcurrent s (pre ++ req :: post) host port)[pre.length]? = some (handleMetadata s req host port) := by
    simp [serveConcurrent]
  refine ⟨h, ?_⟩
  intro r hr
  rw [h] at hr
  cases hr
  exact ⟨KafVerif.C28.only_proxy s req host port, KafVerif.C28.topology_kept s req host port⟩

/-- Coalescing overlapping lookups is sound exactly when equal keys imply equal loads. -/
theorem _root_.KafVerif.C28.coalescing_sound_if_key_determines_load {κ : Type} [DecidableEq κ]
    (key : Option (List ReqTopic) → κ) (s : Meta) (reqs : List (Option (List ReqTopic))) (host : String) (port : Int)
    (hk : ∀ r r', key r' = key r → loadMetadata s r' = loadMetadata s r) :
    serveCoalesced key s reqs host port = serveConcurrent s reqs host port := by
  unfold serveCoalesced serveConcurrent
  apply List.map_congr_left
  intro r _
  split
  · rename_i r' hf
    have := List.find?_some hf
    rw [hk r r' (by simpa using this)]
    rfl
  · rfl

/-- **The seeded change C28-1 violates the property:** keyed by the requested NAMES only, two
overlapping by-id requests for different topics share one load and the second client is told
about the first client's topic. -/
theorem _root_.KafVerif.C28.names_key_coalescing_violates :
    ∃ (s : Meta) (r1 r2 : Option (List ReqTopic)) (host : String) (port : Int),
      -- the second client asked for topic id 2 …
      (expectedShapes s r2).map (·.2.1) = [.lit 2] ∧
      -- … and is answered with topic id 1, the first client's topic
      ((serveCoalesced namesKey s [r1, r2] host port)[1]?.map fun r => r.topics.map (·.tid)) = some [.lit 1] :=
  ⟨{ brokers := [], controller := 0, cluster := none,
     topics := [{ err := 0, name := some "a", tid := .lit 1, internal := false, parts := [] },
                { err := 0, name := some "b", tid := .lit 2, internal := false, parts := [] }] },
   some [{ name := none, tid := .lit 1 }], some [{ name := none, tid := .lit 2 }], "", 9092, by decide, by decide⟩

/-! ### sessions on one proxy: no stale cross-request state -/

theorem runSessionWith_get (load : List (TopicId × String) → Meta → Option (List ReqTopic) → Meta)
    (host : String) (port : Int) (st : Session) (pre post : List SOp) (op : SOp) :
    (runSessionWith load host port st (pre ++ op :: post))[pre.length]? =
      some (replyWith load host port (pre.foldl advance st) op) := by
  induction pre generalizing st with
  | nil => simp [runSessionWith]
  | cons a pre ih => simp [runSessionWith, ih]

theorem advance_snap (st : Session) (op : SOp) :
    (advance st op).snap = currentSnap st.snap [op] := by
  cases op with
  | setSnapshot m => rfl
  | warm => rfl
  | resolve id => simp only [advance, currentSnap]; split <;> rfl
  | request r => rfl

theorem foldl_advance_snap (st : Session) (ops : List SOp) :
    (ops.foldl advance st).snap = currentSnap st.snap ops := by
  induction ops generalizing st with
  | nil => rfl
  | cons op ops ih =>
    rw [List.foldl_cons, ih, advance_snap]
    cases op <;> rfl

/-- **C28 (sessions: the reply comes from the CURRENT snapshot).**  For EVERY history of one proxy
— any interleaving of snapshot changes, cache refreshes (`refreshMetadataCache`,
`currentBackends`), `resolveTopicID` calls and earlier Metadata requests, from any starting
state, with any ops still to come — the reply to a Metadata request is `handleMetadata` of the
snapshot IN FORCE when the request arrives (the last `setSnapshot` before it) and of the request:
exactly what a freshly started proxy answers.  Hence it names only the proxy and keeps the
topology of the current snapshot (`expectedShapes`), whatever was cached earlier. -/
theorem _root_.KafVerif.C28.session_reply_from_current_snapshot (st : Session) (pre post : List SOp)
    (req : Option (List ReqTopic)) (host : String) (port : Int) :
    (runSession host port st (pre ++ .request req :: post))[pre.length]? =
      some (some (handleMetadata (currentSnap st.snap pre) req host port)) ∧
    ∀ r, (runSession host port st (pre ++ .request req :: post))[pre.length]? = some (some r) →
      onlyProxy r host port = true ∧
      r.topics.map topicShape = expectedShapes (currentSnap st.snap pre) req := by
  have h : (runSession host port st (pre ++ .request req :: post))[pre.length]? =
      some (some (handleMetadata (currentSnap st.snap pre) req host port)) := by
    unfold runSession
    rw [runSessionWith_get]
    simp [replyWith, handleMetadata, foldl_advance_snap]
  refine ⟨h, ?_⟩
  intro r hr
  rw [h] at hr
  cases hr
  exact ⟨KafVerif.C28.only_proxy _ req host port, KafVerif.C28.topology_kept _ req host port⟩

/-- **C28 (sessions: the name cache is not consulted).**  Two proxies that hold the same snapshot
but arbitrary, different topic-name caches answer every history identically. -/
theorem _root_.KafVerif.C28.session_ignores_cache (s : Meta) (c c' : List (TopicId × String))
    (ops : List SOp) (host : String) (port : Int) :
    runSession host port ⟨s, c⟩ ops = runSession host port ⟨s, c'⟩ ops := by
  suffices h : ∀ (ops : List SOp) (st st' : Session), st.snap = st'.snap →
      runSession host port st ops = runSession host port st' ops from h ops _ _ rfl
  intro ops
  induction ops with
  | nil => intros; rfl
  | cons op ops ih =>
    intro st st' hs
    unfold runSession at ih ⊢
    simp only [runSessionWith]
    congr 1
    · cases op <;> simp [replyWith, hs]
    · apply ih
      rw [advance_snap, advance_snap, hs]

/-! #### the seeded class: by-id requests translated through the name cache -/

theorem storeView_tid_ne_zero (s : Meta) (t : Topic) (h : t ∈ (storeView s).topics) : t.tid ≠ .zero := by
  simp only [storeView, List.mem_map] at h
  rcases h with ⟨u, _, rfl⟩
  simp only [normTopic]
  split <;> simp_all

theorem cachedNames_agree (cache : List (TopicId × String)) (s : Meta) (ha : cacheAgrees cache s)
    (ts : List ReqTopic) (names : List String) (h : cachedNames cache ts = some names) :
    filterTopics (storeView s).topics names = byId (storeView s).topics ts ∧ (ts ≠ [] → names ≠ []) := by
  induction ts generalizing names with
  | nil =>
    simp only [cachedNames, Option.some.injEq] at h
    subst h
    exact ⟨rfl, fun h => absurd rfl h⟩
  | cons t ts ih =>
    unfold cachedNames at h
    split at h
    · rename_i n ns hn hns
      cases h
      obtain ⟨x, hx1, hx2⟩ := ha _ _ hn
      have hx := lastWith_some hx1
      have hne : t.tid ≠ .zero := by
        have h1 : x.tid = t.tid := by simpa using hx.2
        rw [← h1]
        exact storeView_tid_ne_zero s x hx.1
      have := (ih ns hns).1
      refine ⟨?_, by simp⟩
      simp only [filterTopics, List.map_cons] at this ⊢
      simp only [byId, List.filter_cons, bne_iff_ne, ne_eq, hne, not_false_eq_true, ↓reduceIte,
        List.map_cons, hx1, hx2]
      rw [this]
      rfl
    · cases h

/-- **Cache translation is sound when the cache agrees with the current snapshot.** -/
theorem _root_.KafVerif.C28.name_cache_sound_if_agrees (cache : List (TopicId × String)) (s : Meta)
    (ha : cacheAgrees cache s) (req : Option (List ReqTopic)) :
    loadViaNameCache cache s req = loadMetadata s req := by
  cases req with
  | none => rfl
  | some ts =>
    simp only [loadViaNameCache, loadMetadata]
    split
    · rfl
    · rename_i hid
      split
      · rename_i names hn
        have hts : ts ≠ [] := by
          intro h; subst h; simp [scanReq] at hid
        obtain ⟨h1, h2⟩ := cachedNames_agree cache s ha ts names hn
        have hne : names.isEmpty = false := by
          cases names with
          | nil => exact absurd rfl (h2 hts)
          | cons _ _ => rfl
        have h1' := h1
        simp only [storeView] at h1'
        simp [storeMetadata, hne, h1', storeView]
      · rfl

/-- … and ONLY then (for a cache without an entry for the zero id, which `updateTopicNames`
never writes): if the translation gives the code's answer for every request, the cache agrees
with the snapshot.  Together: the seeded shortcut is correct exactly as long as no cached topic
was deleted, re-created under a new id, renamed or shadowed since the cache was filled. -/
theorem _root_.KafVerif.C28.name_cache_sound_iff_agrees (cache : List (TopicId × String)) (s : Meta)
    (hz : cacheLookup cache .zero = none) :
    cacheAgrees cache s ↔ ∀ req, loadViaNameCache cache s req = loadMetadata s req := by
  constructor
  · exact fun ha req => KafVerif.C28.name_cache_sound_if_agrees cache s ha req
  · intro h id n hc
    have hid : id ≠ .zero := by
      intro h0; subst h0; rw [hz] at hc; cases hc
    have := h (some [{ name := none, tid := id }])
    simp only [loadViaNameCache, loadMetadata, scanReq, ne_eq, hid, not_false_eq_true, ↓reduceIte,
      Bool.not_true, Bool.false_eq_true, cachedNames, hc, storeMetadata, List.isEmpty_cons,
      List.isEmpty_nil, filterTopics, List.map_cons, List.map_nil, byId, List.filter_cons,
      bne_iff_ne, List.filter_nil, Meta.mk.injEq, List.cons.injEq, and_true, true_and] at this
    cases h1 : lastWith (fun x => x.name == some n) (storeView s).topics with
    | none =>
      cases h2 : lastWith (fun x => x.tid == id) (storeView s).topics with
      | none =>
        simp only [h1, h2] at this
        simp [UNKNOWN_TOPIC_OR_PARTITION, UNKNOWN_TOPIC_ID] at this
      | some x =>
        simp only [h1, h2] at this
        have hx := lastWith_some h2
        have hne := storeView_tid_ne_zero s x hx.1
        rw [← this] at hne
        exact absurd rfl hne
    | some t =>
      cases h2 : lastWith (fun x => x.tid == id) (storeView s).topics with
      | none =>
        simp only [h1, h2] at this
        have ht := (lastWith_some h1).2
        rw [this] at ht
        simp at ht
      | some x =>
        simp only [h1, h2] at this
        exact ⟨x, rfl, by rw [this]⟩

theorem lastWith_unique {p : Topic → Bool} {l : List Topic} {t : Topic} (ht : t ∈ l) (hp : p t = true)
    (hu : ∀ x ∈ l, p x = true → x = t) : lastWith p l = some t := by
  cases h : lastWith p l with
  | none => have := lastWith_none h t ht; simp [hp] at this
  | some x => have := lastWith_some h; rw [hu x this.1 this.2]

theorem cacheLookup_filterMap (f : Topic → Option (TopicId × String)) (l : List Topic) (id : TopicId) (n : String)
    (h : cacheLookup (l.filterMap f) id = some n) : ∃ t ∈ l, f t = some (id, n) := by
  induction l with
  | nil => simp [cacheLookup] at h
  | cons a l ih =>
    simp only [List.filterMap_cons] at h
    split at h
    · rcases ih h with ⟨t, ht, hf⟩
      exact ⟨t, List.mem_cons_of_mem _ ht, hf⟩
    · rename_i b hb
      obtain ⟨k, v⟩ := b
      unfold cacheLookup at h
      split at h
      · rename_i x hx
        cases h
        rcases ih hx with ⟨t, ht, hf⟩
        exact ⟨t, List.mem_cons_of_mem _ ht, hf⟩
      · split at h
        · rename_i hk
          cases h
          subst hk
          exact ⟨a, List.mem_cons_self, hb⟩
        · cases h

/-- **A fresh cache is sound on a well-formed snapshot.**  Right after a refresh, and as long as
the snapshot does not change, the cache agrees with a snapshot that lists no topic id and no
topic name twice — so the shortcut is invisible to single requests against a fixed snapshot
(why the earlier run, one snapshot per case and no refresh, could not see it). -/
theorem _root_.KafVerif.C28.fresh_cache_agrees_on_wellformed_snapshot (s : Meta)
    (hid : ∀ x ∈ (storeView s).topics, ∀ y ∈ (storeView s).topics, x.tid = y.tid → x = y)
    (hname : ∀ x ∈ (storeView s).topics, ∀ y ∈ (storeView s).topics, x.name = y.name → x = y) :
    cacheAgrees (cacheOf s) s := by
  intro id n hc
  obtain ⟨t, ht, hf⟩ := cacheLookup_filterMap _ _ id n hc
  have hnm : t.name = some n := by
    simp only [storeView, List.mem_map] at ht
    rcases ht with ⟨u, _, rfl⟩
    split at hf
    · simp only [Option.some.injEq, Prod.mk.injEq] at hf
      simp only [normTopic] at hf ⊢
      rw [← hf.2]
      simp
    · cases hf
  have htid : t.tid = id := by
    split at hf
    · simp only [Option.some.injEq, Prod.mk.injEq] at hf; exact hf.1
    · cases hf
  refine ⟨t, lastWith_unique ht (by simp [htid]) ?_, lastWith_unique ht (by simp [hnm]) ?_⟩
  · intro x hx hp
    exact hid x hx t ht (by rw [htid]; simpa using hp)
  · intro x hx hp
    exact hname x hx t ht (by rw [hnm]; simpa using hp)

/-- The witness history: snapshot `a`, refresh the cache, snapshot `x`, one request. -/
def staleHist (a x : Meta) (req : Option (List ReqTopic)) : List SOp :=
  [.setSnapshot a, .warm, .setSnapshot x, .request req]
def staleSt0 : Session := ⟨{ brokers := [], controller := 0, cluster := none, topics := [] }, []⟩
/-- name, topic id, error code and number of partitions of a shape -/
def shapeKey (x : Shape) : Option String × TopicId × Int × Nat := (x.1, x.2.1, x.2.2.1, x.2.2.2.2.length)
/-- … of the topics in the reply to op 3 (the request) of a run. -/
def staleShapes (out : List (Option Meta)) : Option (List (Option String × TopicId × Int × Nat)) :=
  (out[3]?.join).map fun r => r.topics.map fun t => shapeKey (topicShape t)

/-- **The seeded change C28-r2-1 violates the property:** warm the cache on a snapshot with topic
`orders` (id 7), delete the topic, ask for id 7.  The code answers UNKNOWN_TOPIC_ID under the
requested id and no name (= `expectedShapes` of the CURRENT snapshot); the cache-translating
proxy answers UNKNOWN_TOPIC_OR_PARTITION, names the deleted topic and loses the id.  Second
witness: the topic is re-created under id 8 — the client that asked for id 7 must be told
UNKNOWN_TOPIC_ID and is handed topic id 8 with its partition. -/
theorem _root_.KafVerif.C28.stale_name_cache_violates :
    ∃ (a b b' : Meta) (req : Option (List ReqTopic)) (host : String) (port : Int),
      -- deleted
      (expectedShapes b req).map shapeKey = [(none, .lit 7, UNKNOWN_TOPIC_ID, 0)] ∧
      staleShapes (runSession host port staleSt0 (staleHist a b req)) = some ((expectedShapes b req).map shapeKey) ∧
      staleShapes (runSessionCached host port staleSt0 (staleHist a b req)) =
        some [(some "orders", .zero, UNKNOWN_TOPIC_OR_PARTITION, 0)] ∧
      -- re-created under a new id
      (expectedShapes b' req).map shapeKey = [(none, .lit 7, UNKNOWN_TOPIC_ID, 0)] ∧
      staleShapes (runSession host port staleSt0 (staleHist a b' req)) = some ((expectedShapes b' req).map shapeKey) ∧
      staleShapes (runSessionCached host port staleSt0 (staleHist a b' req)) = some [(some "orders", .lit 8, 0, 1)] :=
  ⟨{ brokers := [], controller := 0, cluster := none,
     topics := [{ err := 0, name := some "orders", tid := .lit 7, internal := false, parts := [] }] },
   { brokers := [], controller := 0, cluster := none, topics := [] },
   { brokers := [], controller := 0, cluster := none,
     topics := [{ err := 0, name := some "orders", tid := .lit 8, internal := false,
                  parts := [{ err := 0, id := 0, leader := 3, epoch := 4, replicas := [3], isr := [3], offline := [] }] }] },
   some [{ name := none, tid := .lit 7 }], "", 9092,
   by decide, by decide, by decide, by decide, by decide, by decide⟩

/-! ### the code as found -/

/-- **The unfixed code violates `only_proxy`:** a snapshot topic that carries an error code
keeps its partitions' real leader / replica ids (broker 5 here), which is not in the reply's
broker list. -/
theorem _root_.KafVerif.C28.old_violates :
    ∃ (s : Meta) (req : Option (List ReqTopic)) (host : String) (port : Int),
      onlyProxy (handleMetadataOld s req host port) host port = false :=
  ⟨{ brokers := [], controller := 5, cluster := none,
     topics := [{ err := 9, name := none, tid := .lit 1, internal := false,
                  parts := [{ err := 0, id := 0, leader := 5, epoch := 3, replicas := [5], isr := [5], offline := [] }] }] },
   none, "", 9092, by decide⟩

/-- Non-vacuity of the hypotheses used above. -/
example : ∃ ts : List ReqTopic, ts.any (fun t => t.tid != .zero) = false ∧ ts.filterMap (·.name) ≠ [] :=
  ⟨[{ name := some "orders", tid := .zero }], by decide, by simp⟩
example : ∃ ts : List ReqTopic, ts.any (fun t => t.tid != .zero) = true :=
  ⟨[{ name := none, tid := .lit 7 }], by decide⟩
example : ∃ v : Nat, v ≥ 1 := ⟨12, by omega⟩
example : ∃ (s : Meta) (id : TopicId) (t : Topic), lastWith (fun t => t.tid == id) (storeView s).topics = some t :=
  ⟨{ brokers := [], controller := 0, cluster := none,
     topics := [{ err := 0, name := none, tid := .lit 4, internal := false, parts := [] }] }, .lit 4, _, rfl⟩
/-- Non-vacuity of `cacheAgrees` / the zero-key hypothesis / the well-formedness hypotheses: a warm
cache with an entry, agreeing with its snapshot, without a zero key. -/
example : ∃ s : Meta, cacheLookup (cacheOf s) (.lit 4) = some "t" ∧ cacheLookup (cacheOf s) .zero = none ∧
    cacheAgrees (cacheOf s) s := by
  refine ⟨{ brokers := [], controller := 0, cluster := none,
            topics := [{ err := 0, name := some "t", tid := .lit 4, internal := false, parts := [] }] },
          by decide, by decide, ?_⟩
  apply KafVerif.C28.fresh_cache_agrees_on_wellformed_snapshot <;> simp [storeView]

end KafVerif.ProxyMetadata

/-! ## Connection level: Metadata / FindCoordinator are never forwarded (added after seeded change C28-r3-1)

The theorems above are about what `handleMetadata` / `handleFindCoordinator` / `buildNotReadyResponse`
build.  The seeded change C28-r3-1 left them alone and changed what `handleConnection` DOES when
`handleMetadata` fails: `break` instead of `return`, so the request ran into the generic
forward-to-backend path and the backend's own Metadata reply reached the client.  The dispatch
model (`Model/ProxyDispatch.lean`) is the per-request switch of `handleConnection`; the theorems
below hold for every connection state, every request sequence and every outcome of every callee. -/
namespace KafVerif.ProxyDispatch

/-- `e` is an event of a request with api key `k`. -/
def Event.of (k : Nat) (e : Event) : Prop :=
  e = .closed ∨ e = .localReply k ∨ e = .notReadyReply k ∨ e = .routedReply k ∨ e = .forwardSent k ∨ e = .relayedReply k

theorem respondBackendError_of (k : Nat) (o : Outcomes) : ∀ e ∈ respondBackendError k o, e.of k := by
  intro e he
  unfold respondBackendError at he
  split at he <;> simp at he
  simp [he, Event.of]

theorem failClose_of (k : Nat) (o : Outcomes) (pre : List Event) (hpre : ∀ e ∈ pre, e.of k) :
    ∀ e ∈ (failClose k o pre).2, e.of k := by
  intro e he
  simp only [failClose, List.mem_append, List.mem_singleton] at he
  rcases he with (h | h) | h
  · exact hpre e h
  · exact respondBackendError_of k o e h
  · simp [h, Event.of]

theorem localArm_of (c : Conn) (k : Nat) (o : Outcomes) : ∀ e ∈ (localArm c k o).2, e.of k := by
  intro e he
  unfold localArm at he
  split at he <;> simp at he <;> simp [he, Event.of]

theorem notReadyArm_of (k : Nat) (o : Outcomes) : ∀ e ∈ (notReadyArm k o).2, e.of k := by
  intro e he
  unfold notReadyArm at he
  split at he
  · simp at he; rcases he with h | h <;> simp [h, Event.of]
  · simp at he; simp [he, Event.of]

theorem routedArm_of (c : Conn) (k : Nat) (o : Outcomes) (b : Bool) : ∀ e ∈ (routedArm c k o b).2, e.of k := by
  intro e he
  unfold routedArm at he
  split at he
  · exact failClose_of k o [] (by simp) e he
  · split at he
    · simp at he
    · split at he <;> simp at he <;> simp [he, Event.of]

theorem forwardPath_of (c : Conn) (k : Nat) (o : Outcomes) : ∀ e ∈ (forwardPath c k o).2, e.of k := by
  intro e he
  unfold forwardPath at he
  split at he
  · exact failClose_of k o [] (by simp) e he
  · simp only at he
    split at he
    · split at he <;> simp at he <;> rcases he with h | h <;> simp [h, Event.of]
    · split at he
      · exact failClose_of k o _ (by simp [Event.of]) e he
      · split at he
        · exact failClose_of k o _ (by simp [Event.of]) e he
        · split at he <;> simp at he <;> rcases he with h | h <;> simp [h, Event.of]

theorem step_of (c : Conn) (k : Nat) (o : Outcomes) : ∀ e ∈ (step c k o).2, e.of k := by
  intro e he
  unfold step at he
  split at he
  · simp at he
  · split at he
    · exact localArm_of c k o e he
    · split at he
      · exact notReadyArm_of k o e he
      · split at he
        · exact localArm_of c k o e he
        · exact localArm_of c k o e he
        · exact localArm_of c k o e he
        · exact routedArm_of c k o _ e he
        · exact routedArm_of c k o _ e he
        · exact routedArm_of c k o _ e he
        · exact forwardPath_of c k o e he
theorem localArm_events (c : Conn) (k : Nat) (o : Outcomes) :
    ∀ e ∈ (localArm c k o).2, e = .localReply k ∨ e = .closed := by
  intro e he
  unfold localArm at he
  split at he <;> simp at he <;> simp [he]

theorem notReadyArm_events (k : Nat) (o : Outcomes) :
    ∀ e ∈ (notReadyArm k o).2, e = .notReadyReply k ∨ e = .closed := by
  intro e he
  unfold notReadyArm at he
  split at he
  · simp at he; rcases he with h | h <;> simp [h]
  · simp at he; simp [he]

theorem arm_metadata : arm 3 = .metadata := by decide
theorem arm_findCoordinator : arm 10 = .findCoordinator := by decide

/-- The Metadata / FindCoordinator arms, spelled out. -/
theorem step_meta_eq (c : Conn) (k : Nat) (o : Outcomes) (hk : isMetaKey k = true) :
    step c k o = if !c.isOpen then (c, []) else if !o.ready then notReadyArm k o else localArm c k o := by
  have hk' : k = 3 ∨ k = 10 := by simpa [isMetaKey] using hk
  rcases hk' with rfl | rfl
  · simp [step, arm_metadata]
  · simp [step, arm_findCoordinator]

/-- A Metadata / FindCoordinator request produces only locally built replies or a close. -/
theorem step_meta_events (c : Conn) (k : Nat) (o : Outcomes) (hk : isMetaKey k = true) :
    ∀ e ∈ (step c k o).2, e = .localReply k ∨ e = .notReadyReply k ∨ e = .closed := by
  intro e he
  rw [step_meta_eq c k o hk] at he
  split at he
  · simp at he
  · split at he
    · rcases notReadyArm_events k o e he with h | h <;> simp [h]
    · rcases localArm_events c k o e he with h | h <;> simp [h]

theorem runWith_mem {st : Conn → Nat → Outcomes → Conn × List Event} {P : Event → Prop}
    (h : ∀ c k o, ∀ e ∈ (st c k o).2, P e) (c : Conn) (reqs : List (Nat × Outcomes)) :
    ∀ e ∈ runWith st c reqs, P e := by
  induction reqs generalizing c with
  | nil => simp [runWith]
  | cons r rest ih =>
    obtain ⟨k, o⟩ := r
    intro e he
    simp only [runWith, List.mem_append] at he
    rcases he with he | he
    · exact h c k o e he
    · exact ih _ e he

/-- The property of one event: it does not touch a backend on behalf of a Metadata /
FindCoordinator request, and if it is a reply to one, the proxy built it. -/
def Event.metaSafe (e : Event) : Prop :=
  (∀ k, e.backendKey = some k → isMetaKey k = false) ∧
  (∀ k, e.replyKey = some k → isMetaKey k = true → e.builtLocally = true)

theorem step_metaSafe (c : Conn) (k : Nat) (o : Outcomes) : ∀ e ∈ (step c k o).2, e.metaSafe := by
  intro e he
  cases hk : isMetaKey k
  · -- not a metadata key: every event of this request carries key k
    have := step_of c k o e he
    rcases this with h | h | h | h | h | h <;> subst h <;>
      simp [Event.metaSafe, Event.backendKey, Event.replyKey, Event.builtLocally, hk]
  · rcases step_meta_events c k o hk e he with h | h | h <;> subst h <;>
      simp [Event.metaSafe, Event.backendKey, Event.replyKey, Event.builtLocally]

/-- **C28, connection level.**  For EVERY client connection (any state it starts in), EVERY
sequence of requests and EVERY outcome of the handlers / the store / the backends / the client
socket: no Metadata or FindCoordinator request is ever written to a backend, no reply to one is
relayed from or assembled from a backend, and every reply the client receives for one was built
inside the proxy (`handleMetadata` / `handleFindCoordinator` / `buildNotReadyResponse`). -/
theorem _root_.KafVerif.C28.metadata_never_forwarded (c : Conn) (reqs : List (Nat × Outcomes)) :
    ∀ e ∈ run c reqs,
      (∀ k, e.backendKey = some k → isMetaKey k = false) ∧
      (∀ k, e.replyKey = some k → isMetaKey k = true → e.builtLocally = true) :=
  runWith_mem (P := Event.metaSafe) step_metaSafe c reqs

/-- The two arms are TERMINAL: a Metadata / FindCoordinator request on a serving connection is
either answered locally with the connection (and its backend link) left exactly as it was, or the
connection is closed — and it is answered iff the proxy is ready, the handler succeeded and the
write succeeded; a not-ready proxy sends at most its not-ready reply and closes. -/
theorem _root_.KafVerif.C28.metadata_arm_terminal (c : Conn) (k : Nat) (o : Outcomes)
    (hk : isMetaKey k = true) (hopen : c.isOpen = true) :
    (o.ready = true ∧ o.handlerOk = true ∧ o.writeOk = true → step c k o = (c, [.localReply k])) ∧
    (o.ready = true ∧ ¬(o.handlerOk = true ∧ o.writeOk = true) → step c k o = (.shut, [.closed])) ∧
    (o.ready = false → (step c k o).1 = .shut ∧
        ((step c k o).2 = [.notReadyReply k, .closed] ∨ (step c k o).2 = [.closed])) := by
  rw [step_meta_eq c k o hk]
  refine ⟨?_, ?_, ?_⟩
  · rintro ⟨h1, h2, h3⟩; simp [hopen, h1, h2, h3, localArm]
  · rintro ⟨h1, h2⟩
    simp only [hopen, h1, localArm]
    simp
    intro h; cases hw : o.writeOk <;> simp_all
  · intro h1
    simp only [hopen, h1, notReadyArm]
    by_cases h : (o.notReadyOk && o.writeOk) = true <;> simp [h]

/-- A Metadata / FindCoordinator request never opens (or replaces) the connection's backend link. -/
theorem _root_.KafVerif.C28.metadata_never_opens_link (c : Conn) (k : Nat) (o : Outcomes)
    (hk : isMetaKey k = true) : (step c k o).1.link = true → c.link = true := by
  rw [step_meta_eq c k o hk]
  split
  · exact id
  · split
    · simp [notReadyArm, Conn.shut]
    · unfold localArm; split <;> simp [Conn.shut]

/-- `return` is final: nothing happens on a closed connection. -/
theorem _root_.KafVerif.C28.closed_connection_is_silent (c : Conn) (reqs : List (Nat × Outcomes))
    (h : c.isOpen = false) : run c reqs = [] := by
  induction reqs with
  | nil => rfl
  | cons r rest ih =>
    obtain ⟨k, o⟩ := r
    simp only [run, runWith] at *
    have : step c k o = (c, []) := by simp [step, h]
    rw [this]; simpa using ih

/-- What the client observes for a Metadata / FindCoordinator request is a locally built reply, a
not-ready reply, or the close of the connection (nothing on an already closed one) — never a
backend's reply. -/
theorem _root_.KafVerif.C28.metadata_observation (c : Conn) (k : Nat) (o : Outcomes) (hk : isMetaKey k = true) :
    observe (step c k o).2 ≠ .backendReply ∧ reachedBackend (step c k o).2 = false := by
  rw [step_meta_eq c k o hk]
  split
  · simp [observe, reachedBackend]
  · split
    · unfold notReadyArm; split <;> simp [observe, reachedBackend]
    · unfold localArm; split <;> simp [observe, reachedBackend]

def okAll : Outcomes :=
  { ready := true, handlerOk := true, noReply := false, notReadyOk := true, writeOk := true,
    connectOk := true, forwardOk := true, reconnectOk := true, forward2Ok := true }

/-- The seeded class (`break` instead of `return` in the Metadata error arm) violates the
property: [ListOffsets relayed (link opened); Metadata whose handler fails] — the Metadata request is
written to the backend link and the backend's reply is relayed to the client; on the code as it is
the same script closes the connection. -/
theorem _root_.KafVerif.C28.fallthrough_forwards_metadata :
    let script := [(2, okAll), (3, { okAll with handlerOk := false })]
    runWith stepFallthrough .fresh script
        = [.forwardSent 2, .relayedReply 2, .forwardSent 3, .relayedReply 3] ∧
    run .fresh script = [.forwardSent 2, .relayedReply 2, .closed] ∧
    -- no prior relayed request, but a diallable backend:
    runWith stepFallthrough .fresh [(3, { okAll with handlerOk := false })] = [.forwardSent 3, .relayedReply 3] := by
  decide

example : isMetaKey 3 = true ∧ isMetaKey 10 = true ∧ isMetaKey 2 = false := by decide
example : run .fresh [(3, okAll), (10, okAll), (2, okAll), (3, { okAll with ready := false }), (3, okAll)]
    = [.localReply 3, .localReply 10, .forwardSent 2, .relayedReply 2, .notReadyReply 3, .closed] := by decide

end KafVerif.ProxyDispatch
