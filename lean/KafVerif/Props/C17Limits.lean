import KafVerif.Props.C17
/-!
C17, etcd resource limits — which hypotheses the bisimulation needs once etcd may REJECT a request.

`InMemoryStore` has no size limits; etcd has two that `EtcdStore` can hit through the `Store` API:
the request size (`--max-request-bytes`, 1.5 MiB: the snapshot put carries every partition of every
topic) and the number of operations in one transaction (`--max-txn-ops`, 128).  `stepEL L oneTxn`
(Model/MetaStore.lean) is `stepE` with both limits as PARAMETERS.

* `limited_step_eq`        related states, snapshot of the successor state fits, (for the one-txn
                           variant only: the deleted topic has ≤ `maxTxnOps` commits) ⇒ the limited
                           step IS the unlimited step.
* `same_results_limited`   HEAD (one delete per key): for EVERY value of `maxTxnOps`, every admissible
                           history all of whose topic tables fit the request size gives the same
                           results on both stores.  No hypothesis on the number of commits, groups,
                           partitions per topic.
* `snapshot_too_large_diverges`  the hypothesis `FitsFrom` is needed: one `CreateTopic` whose
                           snapshot exceeds the request size succeeds in memory and fails on etcd —
                           also with etcd's default limits (`etcdDefaults`, 13 000 partitions).
* `onetxn_same_results`    the one-transaction variant of `deleteConsumerOffsets` needs the extra
                           hypothesis `TxnFitsFrom` (at every `DeleteTopic t`, at most `maxTxnOps`
                           commits are stored for `t`).
* `onetxn_diverges`        … and that hypothesis is needed: with etcd's limit of 128, `CreateTopic`,
                           129 commits, `DeleteTopic`, read back: memory deletes (`ok`, commit gone,
                           topic gone), etcd answers an error and still serves the commit and the
                           topic; with 128 commits both agree (boundary).
* `onetxn_delete_fails_over_limit`  the general form, for every limit and every pair of related
                           states: if the topic exists and more than `maxTxnOps` commits are stored
                           for it, `DeleteTopic` answers `ok` in memory and an error from the
                           one-transaction etcd variant, which keeps every commit and the snapshot.
-/
namespace KafVerif.MetaStore

/-- Every topic table the history goes through (as the in-memory store sees it — a property of the
history, not of etcd) fits into one snapshot request. -/
def FitsFrom (L : Limits) (m : Mem) : List Op → Prop
  | [] => True
  | op :: r => L.size (stepM m op).1.topics ≤ L.maxSnap ∧ FitsFrom L (stepM m op).1 r

/-- At every `DeleteTopic t` of the history at most `maxTxnOps` commits are stored for `t`. -/
def TxnFits (L : Limits) (m : Mem) : Op → Prop
  | .deleteTopic t => (m.coffs.filter (fun x => x.1.2.1 = t)).length ≤ L.maxTxnOps
  | _ => True

def TxnFitsFrom (L : Limits) (m : Mem) : List Op → Prop
  | [] => True
  | op :: r => TxnFits L m op ∧ TxnFitsFrom L (stepM m op).1 r

theorem _root_.KafVerif.C17.limited_step_eq {m : Mem} {e : Etcd} (h : R m e) (L : Limits) (one : Bool) (op : Op)
    (hf : L.size (stepM m op).1.topics ≤ L.maxSnap) (ht : one = true → TxnFits L m op) :
    stepEL L one e op = stepE e op := by
  cases op with
  | createTopic t n rf =>
    simp only [stepEL, stepE, etcdCreateTopicL, etcdCreateTopic, refresh_eq h]
    by_cases hok : createCheck m.brokers m.topics t n rf = .ok
    · have hok' : createCheck e.loc.brokers e.loc.topics t n rf = .ok := by rw [h.brokers, h.topics]; exact hok
      simp only [stepM, memCreateTopic_ok m t n rf hok] at hf
      rw [memCreateTopic_ok e.loc t n rf hok']
      simp only [if_true, h.topics, hf]
    · have hok' : createCheck e.loc.brokers e.loc.topics t n rf ≠ .ok := by rw [h.brokers, h.topics]; exact hok
      rw [memCreateTopic_err e.loc t n rf hok']
      simp only [hok', if_false]
  | createPartitions t n =>
    simp only [stepEL, stepE, etcdCreatePartitionsL, etcdCreatePartitions]
    by_cases h0 : (t = 0 || n ≤ 0) = true
    · simp only [h0, if_true]
    · simp only [h0, Bool.false_eq_true, if_false, refresh_eq h, h.topics]
      cases hp : tparts m.topics t with
      | none => rfl
      | some cur =>
        simp only
        by_cases hle : n ≤ (cur : Int)
        · simp only [hle, if_true]
        · have hg : growCheck m.topics t n = .ok := by
            simp only [growCheck, h0, Bool.false_eq_true, if_false, hp, hle]
          have hg' : growCheck e.loc.topics t n = .ok := by rw [h.topics]; exact hg
          simp only [stepM, memCreatePartitions_ok m t n hg] at hf
          rw [memCreatePartitions_ok e.loc t n hg']
          simp only [hle, if_false, if_true, h.topics, hf]
  | deleteTopic t =>
    simp only [stepEL, stepE, etcdDeleteTopicL, etcdDeleteTopic, refresh_eq h, memDeleteTopic, h.topics]
    by_cases hn : (tparts m.topics t).isNone = true
    · simp only [hn, if_true]
    · simp only [stepM, memDeleteTopic, hn, Bool.false_eq_true, if_false] at hf
      simp only [hn, Bool.false_eq_true, if_false, if_true, hf]
      have hcnt : ¬ (one = true ∧ (e.kvCoff.filter (fun x => x.1.2.1 = t)).length > L.maxTxnOps) := by
        intro ⟨h1, h2⟩
        have := ht h1
        simp only [TxnFits] at this
        rw [h.coffs] at h2
        omega
      by_cases h1 : one = true
      · have h2 : ¬ (e.kvCoff.filter (fun x => x.1.2.1 = t)).length > L.maxTxnOps := fun h2 => hcnt ⟨h1, h2⟩
        simp only [h1, Bool.true_and, decide_eq_true_eq, h2, if_false]
      · have h1' : one = false := by
          cases one with
          | true => exact absurd rfl h1
          | false => rfl
        simp only [h1', Bool.false_and, Bool.false_eq_true, if_false]
  | metadata _ => rfl
  | nextOffset _ _ => rfl
  | updateOffsets _ _ _ => rfl
  | commit _ _ _ _ _ => rfl
  | fetch _ _ _ => rfl
  | listOffsets => rfl
  | putGroup _ _ => rfl
  | fetchGroup _ => rfl
  | listGroups => rfl
  | deleteGroup _ => rfl
  | fetchConfig _ => rfl
  | updateConfig _ _ _ => rfl

theorem same_from_limited {m : Mem} {e : Etcd} (h : R m e) (L : Limits) (one : Bool) (ops : List Op)
    (ha : ∀ op ∈ ops, Admissible op) (hf : FitsFrom L m ops) (ht : one = true → TxnFitsFrom L m ops) :
    maskAll ops (runM m ops) = maskAll ops (runEL L one e ops) := by
  induction ops generalizing m e with
  | nil => rfl
  | cons op r ih =>
    obtain ⟨ho, hr⟩ := KafVerif.C17.stores_bisimilar h op (ha op (by simp))
    have heq := KafVerif.C17.limited_step_eq h L one op hf.1 (fun h1 => (ht h1).1)
    simp only [runM, runEL, maskAll, heq]
    have hmask : maskOut op (stepM m op).2 = maskOut op (stepE e op).2 := by
      cases op <;> first | rfl | (simp only [sameOut] at ho; simp only [maskOut, ho])
    rw [hmask, ih hr (fun o ho' => ha o (by simp [ho'])) hf.2 (fun h1 => (ht h1).2)]

/-- **C17 with etcd's limits as parameters (HEAD: one delete per committed offset).**  For every
transaction-operation limit and every request-size limit: an admissible history whose topic tables
all fit into one snapshot request gives the same results on both stores.  There is NO hypothesis on
how many commits, groups or partitions a topic has. -/
theorem _root_.KafVerif.C17.same_results_limited (L : Limits) (brokers : Nat) (ops : List Op)
    (ha : ∀ op ∈ ops, Admissible op) (hf : FitsFrom L (initM brokers) ops) :
    maskAll ops (runM (initM brokers) ops) = maskAll ops (runEL L false (initE brokers) ops) :=
  same_from_limited (R_init brokers) L false ops ha hf (fun h => by cases h)

/-- **The one-transaction variant needs a bound on the commits per topic.** -/
theorem _root_.KafVerif.C17.onetxn_same_results (L : Limits) (brokers : Nat) (ops : List Op)
    (ha : ∀ op ∈ ops, Admissible op) (hf : FitsFrom L (initM brokers) ops) (ht : TxnFitsFrom L (initM brokers) ops) :
    maskAll ops (runM (initM brokers) ops) = maskAll ops (runEL L true (initE brokers) ops) :=
  same_from_limited (R_init brokers) L true ops ha hf (fun _ => ht)

/-! ### the hypotheses are needed -/

/-- Limits for small witnesses: `k` operations per transaction, snapshot size = number of
partitions, at most `s` of them. -/
def tiny (k s : Nat) : Limits := { maxTxnOps := k, maxSnap := s, size := fun ts => ts.foldl (fun acc e => acc + e.2) 0 }

/-- **`FitsFrom` is needed.**  A `CreateTopic` whose snapshot does not fit: `ok` in memory, error
from etcd, and `Metadata` then differs after the next snapshot refresh (here: a failing
`CreatePartitions` of an unknown topic, which reloads the snapshot).  Second conjunct: the same with
etcd's real limits — 13 000 partitions ≈ 1.64 MB > 1.5 MiB. -/
theorem _root_.KafVerif.C17.snapshot_too_large_diverges :
    (runM (initM 1) [.createTopic 2 1 1, .createTopic 1 11 1, .createPartitions 9 5, .metadata [1]] =
       [.ok, .ok, .errUnknown, .topics [(1, some 11)]] ∧
     runEL (tiny 128 10) false (initE 1) [.createTopic 2 1 1, .createTopic 1 11 1, .createPartitions 9 5, .metadata [1]] =
       [.ok, .errOther, .errUnknown, .topics [(1, none)]]) ∧
    (runM (initM 1) [.createTopic 1 13000 1] = [.ok] ∧ runEL etcdDefaults false (initE 1) [.createTopic 1 13000 1] = [.errOther]) ∧
    (runEL etcdDefaults false (initE 1) [.createTopic 1 2000 1] = [.ok]) := by
  decide

/-- **General form of the divergence of the one-transaction variant**, for every limit and every
pair of related states. -/
theorem _root_.KafVerif.C17.onetxn_delete_fails_over_limit {m : Mem} {e : Etcd} (h : R m e) (L : Limits) (t : Nat)
    (hex : (tparts m.topics t).isNone = false)
    (hc : (m.coffs.filter (fun x => x.1.2.1 = t)).length > L.maxTxnOps) :
    (stepM m (.deleteTopic t)).2 = .ok ∧ (stepEL L true e (.deleteTopic t)).2 = .errOther ∧
    (stepEL L true e (.deleteTopic t)).1.kvCoff = e.kvCoff ∧ (stepEL L true e (.deleteTopic t)).1.snap = e.snap := by
  rw [← h.coffs] at hc
  simp only [stepM, stepEL, etcdDeleteTopicL, refresh_eq h, memDeleteTopic, h.topics, hex, Bool.false_eq_true, if_false, if_true,
    Bool.true_and, decide_eq_true_eq, hc]
  exact ⟨trivial, trivial, trivial, trivial⟩

/-- `n` commits (group 1 + i / 33, partition i % 33 — like 4 groups × 33 partitions) for topic `t`. -/
def manyCommits (t n : Nat) : List Op :=
  (List.range n).map fun i => .commit (1 + i / 33) t ((i % 33 : Nat) : Int) 5 7

/-- The history of seeded change C17-r3-1: create, `n` commits, delete, read back. -/
def bigDelete (n : Nat) : List Op :=
  [.createTopic 1 40 1] ++ manyCommits 1 n ++ [.deleteTopic 1, .fetch 1 1 0, .createPartitions 9 5, .metadata [1]]

/-- **`TxnFitsFrom` is needed (etcd's limit 128).**  With 129 commits the one-transaction variant
fails the delete and keeps serving the commit and the topic while the in-memory store deleted both;
HEAD's per-key variant agrees with memory; with 128 commits the one-transaction variant agrees too. -/
theorem _root_.KafVerif.C17.onetxn_diverges :
    ((runM (initM 1) (bigDelete 129)).drop 130 = [.ok, .coff 0 0, .errUnknown, .topics [(1, none)]] ∧
     (runEL etcdDefaults true (initE 1) (bigDelete 129)).drop 130 = [.errOther, .coff 5 7, .errUnknown, .topics [(1, some 40)]] ∧
     (runEL etcdDefaults false (initE 1) (bigDelete 129)).drop 130 = [.ok, .coff 0 0, .errUnknown, .topics [(1, none)]]) ∧
    (runEL etcdDefaults true (initE 1) (bigDelete 128)).drop 129 = [.ok, .coff 0 0, .errUnknown, .topics [(1, none)]] := by
  decide +kernel

end KafVerif.MetaStore
