import KafVerif.Model.MetaKeys
import KafVerif.Gen.C22LogInit
/-!
C22 — Different topics never share storage or metadata keys.

Statement (properties.jsonl): topic names the broker accepts never cause two distinct topics (or
a topic and a partition of another) to map to the same S3 objects or etcd keys; names that would
alias another topic's storage (path separators, dot segments) are rejected.
Quantifier: every pair of topic names accepted by topic creation or auto-creation.

Theorems (all for EVERY namespace string, EVERY pair of accepted names, EVERY partition / base
offset — no bound anywhere):
* `accepted_plain`        an accepted name is one plain path element without `/` and `:`
* `keys_injective`        (t,p) ≠ (t',p') → S3 keys, cache keys, etcd partition keys, in-memory keys,
                          lease ids are pairwise different and no list-prefix of (t,p) covers a key of (t',p')
* `topics_disjoint`       t ≠ t' → additionally the per-topic keys and the delete prefixes are separate
* `old_rule_aliases`      witness: the pre-fix rule (`name != ""`) accepts `a/../orders`, `x/0`,
                          `x/partitions/0` … which alias `orders` / partition 0 of `x`
* `loginit_format_injective`  every key expression `topic ++ [c] ++ %d` with a separator byte `c` outside the
                          legal topic alphabet is injective on accepted names × all partitions
* `loginit_src_injective` the singleflight key of `getPartitionLog` AS REGENERATED FROM THE SOURCE
                          (`Gen/C22LogInit.lean`) is such an expression at its single call site, hence injective
* `loginit_nosep_collides` witness: the separator-less key (`fmt.Sprint(topic, partition)`, `"%s%d"`) maps
                          (`t1`,0) and (`t`,10) to the same string
-/
namespace KafVerif.MetaKeys

/-! ### splitting and joining -/

theorem splitOn_ne_nil (c : Char) (s : List Char) : splitOn c s ≠ [] := by
  induction s with
  | nil => simp [splitOn]
  | cons x r ih =>
    unfold splitOn
    split
    · simp
    · split <;> simp

theorem splitOn_free {c : Char} {s : List Char} (h : c ∉ s) : splitOn c s = [s] := by
  induction s with
  | nil => rfl
  | cons x r ih =>
    simp only [List.mem_cons, not_or] at h
    have hx : x ≠ c := fun e => h.1 e.symm
    simp [splitOn, hx, ih h.2]

theorem splitOn_append (c : Char) (a b : List Char) :
    splitOn c (a ++ c :: b) = splitOn c a ++ splitOn c b := by
  induction a with
  | nil => simp [splitOn]
  | cons x r ih =>
    by_cases hx : x = c
    · subst hx; simp [splitOn, ih]
    · simp only [List.cons_append, splitOn, hx, if_false, ih]
      cases hs : splitOn c r with
      | nil => exact absurd hs (splitOn_ne_nil c r)
      | cons h t => simp

theorem splitOn_append_free {c : Char} {a : List Char} (b : List Char) (h : c ∉ a) :
    splitOn c (a ++ c :: b) = a :: splitOn c b := by
  rw [splitOn_append, splitOn_free h]; rfl

/-- `strings.Split(strings.Join(segs, c), c) = segs` for separator-free, non-empty `segs`. -/
theorem splitOn_joinOn {c : Char} {segs : List (List Char)} (hne : segs ≠ [])
    (h : ∀ s ∈ segs, c ∉ s) : splitOn c (joinOn c segs) = segs := by
  induction segs with
  | nil => exact absurd rfl hne
  | cons a r ih =>
    cases r with
    | nil => simpa [joinOn] using splitOn_free (h a (by simp))
    | cons b r' =>
      simp only [joinOn]
      rw [splitOn_append_free _ (h a (by simp)), ih (by simp) (fun s hs => h s (by simp [hs]))]

theorem joinOn_append {c : Char} {st b : List (List Char)} (hs : st ≠ []) (hb : b ≠ []) :
    joinOn c (st ++ b) = joinOn c st ++ c :: joinOn c b := by
  induction st with
  | nil => exact absurd rfl hs
  | cons a r ih =>
    cases r with
    | nil =>
      cases b with
      | nil => exact absurd rfl hb
      | cons b0 br => simp [joinOn]
    | cons a2 r' =>
      have := ih (by simp)
      simp only [List.cons_append, joinOn] at this ⊢
      rw [this]; simp

/-! ### `path.Join` of a namespace and plain elements -/

/-- A path element `Clean` keeps as it is. -/
def Plain (s : List Char) : Prop := s ≠ [] ∧ s ≠ dot ∧ s ≠ dotdot ∧ '/' ∉ s

theorem cleanStep_plain {r : Bool} {st : List (List Char)} {s : List Char} (h : Plain s) :
    cleanStep r st s = st ++ [s] := by
  obtain ⟨h1, h2, h3, _⟩ := h
  simp [cleanStep, h1, h2, h3]

theorem foldl_plain {r : Bool} {segs : List (List Char)} (h : ∀ s ∈ segs, Plain s) (st : List (List Char)) :
    segs.foldl (cleanStep r) st = st ++ segs := by
  induction segs generalizing st with
  | nil => simp
  | cons a t ih =>
    simp only [List.foldl_cons, cleanStep_plain (h a (by simp))]
    rw [ih (fun s hs => h s (by simp [hs]))]; simp

theorem joinBuf_ne {buf : List Char} (hb : buf ≠ []) (segs : List (List Char)) :
    joinBuf buf segs = buf ++ segs.flatMap ('/' :: ·) := by
  induction segs generalizing buf with
  | nil => simp [joinBuf]
  | cons e r ih =>
    simp only [joinBuf, hb, ne_eq, not_false_eq_true, true_or, if_true]
    rw [ih (by simp [hb])]; simp

theorem split_flat {segs : List (List Char)} (h : ∀ s ∈ segs, '/' ∉ s) (buf : List Char) :
    splitOn '/' (buf ++ segs.flatMap ('/' :: ·)) = splitOn '/' buf ++ segs := by
  induction segs generalizing buf with
  | nil => simp
  | cons e r ih =>
    have h1 : buf ++ List.flatMap ('/' :: ·) (e :: r) = (buf ++ '/' :: e) ++ r.flatMap ('/' :: ·) := by simp
    rw [h1, ih (fun s hs => h s (by simp [hs])), splitOn_append, splitOn_free (h e (by simp))]
    simp

/-- What the namespace contributes to every key (depends on the namespace only). -/
def keyPfx (n : List Char) : List Char :=
  (if isRooted n then ['/'] else []) ++
  (if cleanStack (isRooted n) n = [] then [] else joinOn '/' (cleanStack (isRooted n) n) ++ ['/'])

/-- `path.Join(ns, e1, …, ek)` for a non-empty namespace and plain elements is a
namespace-only prefix followed by the elements joined with `/` — nothing is cleaned away. -/
theorem pathJoin_plain {n : List Char} (hn : n ≠ []) {segs : List (List Char)} (hs : segs ≠ [])
    (h : ∀ s ∈ segs, Plain s) : pathJoin (n :: segs) = keyPfx n ++ joinOn '/' segs := by
  have hall : (n :: segs).all (· = []) = false := by simp [hn]
  have hjb : joinBuf [] (n :: segs) = n ++ segs.flatMap ('/' :: ·) := by
    simp only [joinBuf, hn, ne_eq, not_false_eq_true, or_true, if_true, not_true_eq_false, if_false,
      List.nil_append]
    exact joinBuf_ne hn segs
  have hne : n ++ segs.flatMap ('/' :: ·) ≠ [] := by simp [hn]
  have hroot : isRooted (n ++ segs.flatMap ('/' :: ·)) = isRooted n := by
    cases n with
    | nil => exact absurd rfl hn
    | cons a r => simp [isRooted]
  have hst : ∀ r, cleanStack r (n ++ segs.flatMap ('/' :: ·)) = cleanStack r n ++ segs := by
    intro r
    unfold cleanStack
    rw [split_flat (fun s hs => (h s hs).2.2.2), List.foldl_append, foldl_plain h]
  unfold pathJoin
  rw [hall, hjb]
  simp only [Bool.false_eq_true, if_false, pathClean, hne, hroot, hst, render, keyPfx]
  by_cases hr : isRooted n = true
  · by_cases he : cleanStack (isRooted n) n = []
    · simp only [hr] at he
      simp [hr, he]
    · simp only [hr, if_true]
      rw [joinOn_append (by simpa [hr] using he) hs]; simp [hr] at he; simp [he]
  · have hr' : isRooted n = false := by simpa using hr
    by_cases he : cleanStack (isRooted n) n = []
    · simp [hr'] at he; simp [hr', he, hs]
    · simp only [hr', Bool.false_eq_true, if_false]
      have he' : cleanStack false n ≠ [] := by simpa [hr'] using he
      rw [joinOn_append he' hs]; simp [he', hs]

/-! ### facts about formatted numbers and accepted names -/

theorem natStr_digit {n : Nat} {c : Char} (h : c ∈ natStr n) : c.isDigit :=
  Nat.isDigit_of_mem_toDigits (by decide) (by decide) h

theorem natStr_inj {n m : Nat} (h : natStr n = natStr m) : n = m := by
  have := congrArg (fun l => Nat.ofDigitChars 10 l 0) h
  simpa [natStr] using this

theorem natStr_ne_nil (n : Nat) : natStr n ≠ [] := Nat.toDigits_ne_nil

theorem intStr_char {i : Int} {c : Char} (h : c ∈ intStr i) : c.isDigit ∨ c = '-' := by
  cases i with
  | ofNat n => exact Or.inl (natStr_digit h)
  | negSucc n =>
    simp only [intStr, List.mem_cons] at h
    rcases h with h | h
    · exact Or.inr h
    · exact Or.inl (natStr_digit h)

theorem intStr_inj {i j : Int} (h : intStr i = intStr j) : i = j := by
  cases i with
  | ofNat n =>
    cases j with
    | ofNat m => simp only [intStr] at h; rw [natStr_inj h]
    | negSucc m =>
      simp only [intStr] at h
      have : '-' ∈ natStr n := by rw [h]; simp
      have := natStr_digit this
      simp [Char.isDigit] at this
  | negSucc n =>
    cases j with
    | ofNat m =>
      simp only [intStr] at h
      have : '-' ∈ natStr m := by rw [← h]; simp
      have := natStr_digit this
      simp [Char.isDigit] at this
    | negSucc m =>
      simp only [intStr, List.cons.injEq, true_and] at h
      have := natStr_inj h
      have : n = m := by omega
      rw [this]

theorem intStr_no {i : Int} {c : Char} (hd : c.isDigit = false) (hm : c ≠ '-') : c ∉ intStr i := by
  intro h
  rcases intStr_char h with h | h
  · simp [hd] at h
  · exact hm h

theorem intStr_ne_nil (i : Int) : intStr i ≠ [] := by
  cases i with
  | ofNat n => exact natStr_ne_nil n
  | negSucc n => simp [intStr]

theorem intStr_plain (i : Int) : Plain (intStr i) := by
  refine ⟨intStr_ne_nil i, ?_, ?_, intStr_no (by decide) (by decide)⟩
  · intro h
    have : '.' ∈ intStr i := by rw [h]; simp [dot]
    exact intStr_no (c := '.') (by decide) (by decide) this
  · intro h
    have : '.' ∈ intStr i := by rw [h]; simp [dotdot]
    exact intStr_no (c := '.') (by decide) (by decide) this

theorem pad20_no {i : Int} {c : Char} (hd : c.isDigit = false) (hm : c ≠ '-') : c ∉ pad20 i := by
  have h0 : c ≠ '0' := by intro e; subst e; simp [Char.isDigit] at hd
  have hn : ∀ n, c ∉ natStr n := fun n h => by have := natStr_digit h; simp [hd] at this
  cases i with
  | ofNat n => simp [pad20, hn, h0]
  | negSucc n => simp [pad20, hn, h0, hm]

theorem segFile_plain (b : Int) : Plain (segFile b) := by
  refine ⟨by simp [segFile, str], by simp [segFile, str, dot], by simp [segFile, str, dotdot], ?_⟩
  have := pad20_no (i := b) (c := '/') (by decide) (by decide)
  simp [segFile, str, this]

theorem idxFile_plain (b : Int) : Plain (idxFile b) := by
  refine ⟨by simp [idxFile, str], by simp [idxFile, str, dot], by simp [idxFile, str, dotdot], ?_⟩
  have := pad20_no (i := b) (c := '/') (by decide) (by decide)
  simp [idxFile, str, this]

theorem accepted_legal {t : List Char} (h : accepted t = true) : ∀ c ∈ t, legalChar c = true := by
  simp only [accepted, Bool.and_eq_true, List.all_eq_true] at h
  exact h.2

/-- **C22 (acceptance).** A name accepted by topic creation is one plain path element
(non-empty, not `.`, not `..`, no `/`) and carries no `:`; it is at most 249 bytes long. -/
theorem _root_.KafVerif.C22.accepted_plain {t : List Char} (h : accepted t = true) :
    Plain t ∧ ':' ∉ t ∧ t.length ≤ 249 := by
  have hl := accepted_legal h
  simp only [accepted, Bool.and_eq_true, decide_eq_true_eq] at h
  refine ⟨⟨h.1.1.1.1, h.1.1.1.2, h.1.1.2, ?_⟩, ?_, h.1.2⟩
  · intro hm; have := hl _ hm; simp [legalChar] at this
  · intro hm; have := hl _ hm; simp [legalChar] at this

theorem effNs_ne_nil (ns : List Char) : effNs ns ≠ [] := by
  unfold effNs; split <;> simp_all [str]

/-! ### the S3 keys -/

theorem s3_form (ns t : List Char) (p : Int) (f : List Char) (ht : Plain t) (hf : Plain f) :
    pathJoin [effNs ns, t, intStr p, f] = keyPfx (effNs ns) ++ joinOn '/' [t, intStr p, f] :=
  pathJoin_plain (effNs_ne_nil ns) (by simp) (by
    intro s hs; simp only [List.mem_cons, List.not_mem_nil, or_false] at hs
    rcases hs with rfl | rfl | rfl
    · exact ht
    · exact intStr_plain p
    · exact hf)

theorem s3_form2 (ns t : List Char) (p : Int) (ht : Plain t) :
    pathJoin [effNs ns, t, intStr p] = keyPfx (effNs ns) ++ joinOn '/' [t, intStr p] :=
  pathJoin_plain (effNs_ne_nil ns) (by simp) (by
    intro s hs; simp only [List.mem_cons, List.not_mem_nil, or_false] at hs
    rcases hs with rfl | rfl
    · exact ht
    · exact intStr_plain p)

theorem s3_form1 (ns t : List Char) (ht : Plain t) :
    pathJoin [effNs ns, t] = keyPfx (effNs ns) ++ t := by
  have := pathJoin_plain (effNs_ne_nil ns) (segs := [t]) (by simp) (by simpa using ht)
  simpa [joinOn] using this

theorem forall_mem3 {P : List Char → Prop} {a b c : List Char} (ha : P a) (hb : P b) (hc : P c) :
    ∀ s ∈ [a, b, c], P s := by
  intro s hs
  simp only [List.mem_cons, List.not_mem_nil, or_false] at hs
  rcases hs with rfl | rfl | rfl <;> assumption

/-- Two three-element keys under the same namespace are equal only if topic and partition are. -/
theorem join3_inj {t t' f f' : List Char} {p p' : Int} (ht : Plain t) (ht' : Plain t') (hf : Plain f) (hf' : Plain f')
    (h : joinOn '/' [t, intStr p, f] = joinOn '/' [t', intStr p', f']) : t = t' ∧ p = p' ∧ f = f' := by
  have h1 := splitOn_joinOn (c := '/') (segs := [t, intStr p, f]) (by simp)
    (forall_mem3 ht.2.2.2 (intStr_plain p).2.2.2 hf.2.2.2)
  have h2 := splitOn_joinOn (c := '/') (segs := [t', intStr p', f']) (by simp)
    (forall_mem3 ht'.2.2.2 (intStr_plain p').2.2.2 hf'.2.2.2)
  rw [h, h2] at h1
  simp only [List.cons.injEq, and_true] at h1
  exact ⟨h1.1.symm, (intStr_inj h1.2.1).symm, h1.2.2.symm⟩

/-- `prefix(t,p) = ns-part ++ t/p/` is a prefix of a key of (t',p') only if (t,p) = (t',p'). -/
theorem prefix3 {t t' f' : List Char} {p p' : Int} (ht : Plain t) (ht' : Plain t') (hf' : Plain f')
    (h : joinOn '/' [t, intStr p] ++ ['/'] <+: joinOn '/' [t', intStr p', f']) : t = t' ∧ p = p' := by
  obtain ⟨z, hz⟩ := h
  have h2 := splitOn_joinOn (c := '/') (segs := [t', intStr p', f']) (by simp)
    (forall_mem3 ht'.2.2.2 (intStr_plain p').2.2.2 hf'.2.2.2)
  rw [← hz] at h2
  simp only [joinOn, List.append_assoc, List.cons_append, List.nil_append] at h2
  rw [splitOn_append_free _ ht.2.2.2, splitOn_append_free _ (intStr_plain p).2.2.2] at h2
  simp only [List.cons.injEq] at h2
  exact ⟨h2.1, intStr_inj h2.2.1⟩

theorem prefix1 {t t' f' : List Char} {p' : Int} (ht : Plain t) (ht' : Plain t') (hf' : Plain f')
    (h : t ++ ['/'] <+: joinOn '/' [t', intStr p', f']) : t = t' := by
  obtain ⟨z, hz⟩ := h
  have h2 := splitOn_joinOn (c := '/') (segs := [t', intStr p', f']) (by simp)
    (forall_mem3 ht'.2.2.2 (intStr_plain p').2.2.2 hf'.2.2.2)
  rw [← hz] at h2
  simp only [List.append_assoc, List.cons_append, List.nil_append] at h2
  rw [splitOn_append_free _ ht.2.2.2] at h2
  simp only [List.cons.injEq] at h2
  exact h2.1

theorem colon3_inj {t t' : List Char} {p p' b b' : Int} (ht : ':' ∉ t) (ht' : ':' ∉ t')
    (h : t ++ ':' :: intStr p ++ ':' :: intStr b = t' ++ ':' :: intStr p' ++ ':' :: intStr b') :
    t = t' ∧ p = p' ∧ b = b' := by
  have hc : ∀ i, ':' ∉ intStr i := fun i => intStr_no (by decide) (by decide)
  have h1 := congrArg (splitOn ':') h
  simp only [List.append_assoc, List.cons_append] at h1
  rw [splitOn_append_free _ ht, splitOn_append_free _ ht', splitOn_append_free _ (hc p),
    splitOn_append_free _ (hc p'), splitOn_free (hc b), splitOn_free (hc b')] at h1
  simp only [List.cons.injEq, and_true] at h1
  exact ⟨h1.1, intStr_inj h1.2.1, intStr_inj h1.2.2⟩

/-! ### the etcd / in-memory keys: split on the separator, compare element lists -/

section etcd
variable {t : List Char} (ht : '/' ∉ t) (p : Int)
include ht

theorem split_offsetKey : splitOn '/' (offsetKey t p) =
    [[], str "kafscale", str "topics", t, str "partitions", intStr p, str "next_offset"] := by
  have hp : '/' ∉ intStr p := intStr_no (by decide) (by decide)
  have e : offsetKey t p = [] ++ '/' :: (str "kafscale" ++ '/' :: (str "topics" ++ '/' :: (t ++ '/' ::
      (str "partitions" ++ '/' :: (intStr p ++ '/' :: str "next_offset"))))) := by
    simp [offsetKey, topicsPfx, str]
  rw [e, splitOn_append_free _ (by simp), splitOn_append_free _ (by simp [str]), splitOn_append_free _ (by simp [str]),
    splitOn_append_free _ ht, splitOn_append_free _ (by simp [str]), splitOn_append_free _ hp,
    splitOn_free (by simp [str])]

theorem split_partitionStateKey : splitOn '/' (partitionStateKey t p) =
    [[], str "kafscale", str "topics", t, str "partitions", intStr p] := by
  have hp : '/' ∉ intStr p := intStr_no (by decide) (by decide)
  have e : partitionStateKey t p = [] ++ '/' :: (str "kafscale" ++ '/' :: (str "topics" ++ '/' :: (t ++ '/' ::
      (str "partitions" ++ '/' :: intStr p)))) := by
    simp [partitionStateKey, topicsPfx, str]
  rw [e, splitOn_append_free _ (by simp), splitOn_append_free _ (by simp [str]), splitOn_append_free _ (by simp [str]),
    splitOn_append_free _ ht, splitOn_append_free _ (by simp [str]), splitOn_free hp]

theorem split_topicConfigKey : splitOn '/' (topicConfigKey t) =
    [[], str "kafscale", str "topics", t, str "config"] := by
  have e : topicConfigKey t = [] ++ '/' :: (str "kafscale" ++ '/' :: (str "topics" ++ '/' :: (t ++ '/' :: str "config"))) := by
    simp [topicConfigKey, topicsPfx, str]
  rw [e, splitOn_append_free _ (by simp), splitOn_append_free _ (by simp [str]), splitOn_append_free _ (by simp [str]),
    splitOn_append_free _ ht, splitOn_free (by simp [str])]

theorem split_leaseKey : splitOn '/' (leaseKey t p) =
    [[], str "kafscale", str "partition-leases", t, intStr p] := by
  have hp : '/' ∉ intStr p := intStr_no (by decide) (by decide)
  have e : leaseKey t p = [] ++ '/' :: (str "kafscale" ++ '/' :: (str "partition-leases" ++ '/' :: (t ++ '/' :: intStr p))) := by
    simp [leaseKey, str]
  rw [e, splitOn_append_free _ (by simp), splitOn_append_free _ (by simp [str]), splitOn_append_free _ (by simp [str]),
    splitOn_append_free _ ht, splitOn_free hp]

theorem split_assignmentKey : splitOn '/' (assignmentKey t p) =
    [[], str "kafscale", str "assignments", t, intStr p] := by
  have hp : '/' ∉ intStr p := intStr_no (by decide) (by decide)
  have e : assignmentKey t p = [] ++ '/' :: (str "kafscale" ++ '/' :: (str "assignments" ++ '/' :: (t ++ '/' :: intStr p))) := by
    simp [assignmentKey, str]
  rw [e, splitOn_append_free _ (by simp), splitOn_append_free _ (by simp [str]), splitOn_append_free _ (by simp [str]),
    splitOn_append_free _ ht, splitOn_free hp]

theorem split_topicDeletePrefix (z : List Char) : splitOn '/' (topicDeletePrefix t ++ z) =
    [[], str "kafscale", str "topics", t] ++ splitOn '/' z := by
  have e : topicDeletePrefix t ++ z = [] ++ '/' :: (str "kafscale" ++ '/' :: (str "topics" ++ '/' :: (t ++ '/' :: z))) := by
    simp [topicDeletePrefix, topicsPfx, str]
  rw [e, splitOn_append_free _ (by simp), splitOn_append_free _ (by simp [str]), splitOn_append_free _ (by simp [str]),
    splitOn_append_free _ ht]
  rfl

end etcd

/-- Equal etcd keys (of any two families) belong to the same topic. -/
theorem etcd_same_topic {t t' : List Char} {p p' : Int} (ht : '/' ∉ t) (ht' : '/' ∉ t')
    {k k' : List Char} (hk : k ∈ etcdKeys t p) (hk' : k' ∈ etcdKeys t' p') (h : k = k') : t = t' := by
  have h1 := congrArg (splitOn '/') h
  simp only [etcdKeys, List.mem_cons, List.not_mem_nil, or_false] at hk hk'
  rcases hk with rfl | rfl | rfl | rfl | rfl <;> rcases hk' with rfl | rfl | rfl | rfl | rfl <;>
    simp [split_offsetKey ht, split_offsetKey ht', split_partitionStateKey ht, split_partitionStateKey ht',
      split_topicConfigKey ht, split_topicConfigKey ht', split_leaseKey ht, split_leaseKey ht',
      split_assignmentKey ht, split_assignmentKey ht', str] at h1 <;> (try exact h1.1) <;> (try exact h1)

/-- The etcd keys that carry a partition number. -/
def etcdPartKeys (t : List Char) (p : Int) : List (List Char) :=
  [offsetKey t p, partitionStateKey t p, leaseKey t p, assignmentKey t p]

theorem partKeys_sub {t : List Char} {p : Int} {k : List Char} (hk : k ∈ etcdPartKeys t p) :
    k ∈ etcdKeys t p := by
  simp only [etcdPartKeys, List.mem_cons, List.not_mem_nil, or_false] at hk
  rcases hk with rfl | rfl | rfl | rfl <;> simp [etcdKeys]

theorem etcd_same_partition {t t' : List Char} {p p' : Int} (ht : '/' ∉ t) (ht' : '/' ∉ t')
    {k k' : List Char} (hk : k ∈ etcdPartKeys t p) (hk' : k' ∈ etcdPartKeys t' p') (h : k = k') : p = p' := by
  have h1 := congrArg (splitOn '/') h
  simp only [etcdPartKeys, List.mem_cons, List.not_mem_nil, or_false] at hk hk'
  rcases hk with rfl | rfl | rfl | rfl <;> rcases hk' with rfl | rfl | rfl | rfl <;>
    simp [split_offsetKey ht, split_offsetKey ht', split_partitionStateKey ht, split_partitionStateKey ht',
      split_leaseKey ht, split_leaseKey ht',
      split_assignmentKey ht, split_assignmentKey ht', str] at h1 <;> exact intStr_inj h1.2

theorem etcd_prefix_same_topic {t t' : List Char} {p' : Int} (ht : '/' ∉ t) (ht' : '/' ∉ t')
    {k' : List Char} (hk' : k' ∈ etcdKeys t' p') (h : topicDeletePrefix t <+: k') : t = t' := by
  obtain ⟨z, hz⟩ := h
  have h1 := congrArg (splitOn '/') hz
  rw [split_topicDeletePrefix ht] at h1
  simp only [etcdKeys, List.mem_cons, List.not_mem_nil, or_false] at hk'
  rcases hk' with rfl | rfl | rfl | rfl | rfl <;>
    simp [split_offsetKey ht', split_partitionStateKey ht', split_topicConfigKey ht', split_leaseKey ht',
      split_assignmentKey ht', str] at h1 <;> (try exact h1.1) <;> (try exact h1)

theorem sep2_inj {c : Char} {t t' : List Char} {p p' : Int} (ht : c ∉ t) (ht' : c ∉ t')
    (hd : c.isDigit = false) (hm : c ≠ '-')
    (h : t ++ c :: intStr p = t' ++ c :: intStr p') : t = t' ∧ p = p' := by
  have h1 := congrArg (splitOn c) h
  rw [splitOn_append_free _ ht, splitOn_append_free _ ht', splitOn_free (intStr_no hd hm),
    splitOn_free (intStr_no hd hm)] at h1
  simp only [List.cons.injEq, and_true] at h1
  exact ⟨h1.1, intStr_inj h1.2⟩

theorem sep_prefix {c : Char} {t t' : List Char} {p' : Int} (ht : c ∉ t) (ht' : c ∉ t')
    (h : t ++ [c] <+: t' ++ c :: intStr p') : t = t' := by
  obtain ⟨z, hz⟩ := h
  have h1 := congrArg (splitOn c) hz
  simp only [List.append_assoc, List.cons_append, List.nil_append] at h1
  rw [splitOn_append_free _ ht, splitOn_append_free _ ht'] at h1
  simp only [List.cons.injEq] at h1
  exact h1.1

/-! ### C22 -/

/-- **C22 (partitions).** For accepted names and `(t,p) ≠ (t',p')`, under any namespace and for any
base offsets: no S3 object key is shared, the list prefix of `(t,p)` covers no object of `(t',p')`,
the segment-cache keys differ, no partition-level etcd key is shared, the in-memory offset keys, the
lease resource ids and the singleflight keys of `getPartitionLog` (one shared `*PartitionLog` per key) differ. -/
theorem _root_.KafVerif.C22.keys_injective (ns t t' : List Char) (p p' b b' : Int)
    (ha : accepted t = true) (ha' : accepted t' = true) (hne : (t, p) ≠ (t', p')) :
    (∀ k ∈ s3Keys ns t p b, ∀ k' ∈ s3Keys ns t' p' b', k ≠ k') ∧
    (∀ k' ∈ s3Keys ns t' p' b', ¬ segmentPrefix ns t p <+: k') ∧
    cacheKey ns t p b ≠ cacheKey ns t' p' b' ∧
    (∀ k ∈ etcdPartKeys t p, ∀ k' ∈ etcdPartKeys t' p', k ≠ k') ∧
    partitionKey t p ≠ partitionKey t' p' ∧
    resourceID t p ≠ resourceID t' p' ∧
    logInitKey t p ≠ logInitKey t' p' := by
  obtain ⟨ht, hc, _⟩ := KafVerif.C22.accepted_plain ha
  obtain ⟨ht', hc', _⟩ := KafVerif.C22.accepted_plain ha'
  have hne' : ¬ (t = t' ∧ p = p') := fun h => hne (by rw [h.1, h.2])
  refine ⟨?_, ?_, ?_, ?_, ?_, ?_, ?_⟩
  · intro k hk k' hk' h
    simp only [s3Keys, List.mem_cons, List.not_mem_nil, or_false] at hk hk'
    have key : ∀ f f', Plain f → Plain f' →
        pathJoin [effNs ns, t, intStr p, f] = pathJoin [effNs ns, t', intStr p', f'] → False := by
      intro f f' hf hf' e
      rw [s3_form ns t p f ht hf, s3_form ns t' p' f' ht' hf'] at e
      have := join3_inj ht ht' hf hf' (List.append_cancel_left e)
      exact hne' ⟨this.1, this.2.1⟩
    rcases hk with rfl | rfl <;> rcases hk' with rfl | rfl
    · exact key _ _ (segFile_plain b) (segFile_plain b') h
    · exact key _ _ (segFile_plain b) (idxFile_plain b') h
    · exact key _ _ (idxFile_plain b) (segFile_plain b') h
    · exact key _ _ (idxFile_plain b) (idxFile_plain b') h
  · intro k' hk' h
    simp only [s3Keys, List.mem_cons, List.not_mem_nil, or_false] at hk'
    have key : ∀ f', Plain f' → segmentPrefix ns t p <+: pathJoin [effNs ns, t', intStr p', f'] → False := by
      intro f' hf' e
      rw [segmentPrefix, s3_form2 ns t p ht, s3_form ns t' p' f' ht' hf', List.append_assoc] at e
      exact hne' (prefix3 ht ht' hf' ((List.prefix_append_right_inj _).mp e))
    rcases hk' with rfl | rfl
    · exact key _ (segFile_plain b') h
    · exact key _ (idxFile_plain b') h
  · intro h
    simp only [cacheKey, cacheTopicKey, s3_form1 ns t ht, s3_form1 ns t' ht', List.append_assoc] at h
    have := colon3_inj hc hc' (by simpa using List.append_cancel_left h)
    exact hne' ⟨this.1, this.2.1⟩
  · intro k hk k' hk' h
    have hk1 := partKeys_sub hk
    have hk1' := partKeys_sub hk'
    exact hne' ⟨etcd_same_topic ht.2.2.2 ht'.2.2.2 hk1 hk1' h, etcd_same_partition ht.2.2.2 ht'.2.2.2 hk hk' h⟩
  · intro h; exact hne' (sep2_inj hc hc' (by decide) (by decide) h)
  · intro h; exact hne' (sep2_inj ht.2.2.2 ht'.2.2.2 (by decide) (by decide) h)
  · intro h; exact hne' (sep2_inj ht.2.2.2 ht'.2.2.2 (by decide) (by decide) h)

/-- **C22 (topics).** For two different accepted names, whatever the partitions: no S3 key, no
etcd key (per-topic config key included), no in-memory key is shared, and none of the prefixes
used to list or delete one topic (`ns/t/`, `/kafscale/topics/t/`, `t:`) covers a key of the other. -/
theorem _root_.KafVerif.C22.topics_disjoint (ns t t' : List Char) (p p' b b' : Int)
    (ha : accepted t = true) (ha' : accepted t' = true) (hne : t ≠ t') :
    (∀ k ∈ s3Keys ns t p b, ∀ k' ∈ s3Keys ns t' p' b', k ≠ k') ∧
    (∀ k' ∈ s3Keys ns t' p' b', ¬ cacheTopicKey ns t ++ ['/'] <+: k') ∧
    (∀ k ∈ etcdKeys t p, ∀ k' ∈ etcdKeys t' p', k ≠ k') ∧
    (∀ k' ∈ etcdKeys t' p', ¬ topicDeletePrefix t <+: k') ∧
    cacheTopicKey ns t ≠ cacheTopicKey ns t' ∧
    ¬ memDeletePrefix t <+: partitionKey t' p' := by
  obtain ⟨ht, hc, _⟩ := KafVerif.C22.accepted_plain ha
  obtain ⟨ht', hc', _⟩ := KafVerif.C22.accepted_plain ha'
  have hne2 : (t, p) ≠ (t', p') := fun h => hne (by simpa using (Prod.mk.injEq _ _ _ _ ▸ h : t = t' ∧ p = p').1)
  refine ⟨(KafVerif.C22.keys_injective ns t t' p p' b b' ha ha' hne2).1, ?_, ?_, ?_, ?_, ?_⟩
  · intro k' hk' h
    simp only [s3Keys, List.mem_cons, List.not_mem_nil, or_false] at hk'
    have key : ∀ f', Plain f' → cacheTopicKey ns t ++ ['/'] <+: pathJoin [effNs ns, t', intStr p', f'] → False := by
      intro f' hf' e
      rw [cacheTopicKey, s3_form1 ns t ht, s3_form ns t' p' f' ht' hf', List.append_assoc] at e
      exact hne (prefix1 ht ht' hf' ((List.prefix_append_right_inj _).mp e))
    rcases hk' with rfl | rfl
    · exact key _ (segFile_plain b') h
    · exact key _ (idxFile_plain b') h
  · intro k hk k' hk' h; exact hne (etcd_same_topic ht.2.2.2 ht'.2.2.2 hk hk' h)
  · intro k' hk' h; exact hne (etcd_prefix_same_topic ht.2.2.2 ht'.2.2.2 hk' h)
  · intro h
    simp only [cacheTopicKey, s3_form1 ns t ht, s3_form1 ns t' ht'] at h
    exact hne (List.append_cancel_left h)
  · intro h; exact hne (sep_prefix hc hc' h)

/-- Non-vacuity: accepted names exist, including the boundary characters. -/
example : accepted (str "orders") = true ∧ accepted (str "a.b_c-D9") = true ∧ accepted (str "...") = true := by decide

/-- **C22 (the pre-fix rule aliases).** With the old rule (`name != ""`): `a/../orders` shares
every S3 key with `orders`; the objects of topic `x/0` (partition 0) lie under the list prefix of
partition 0 of `x`; `x/partitions/0` makes partition-state key of `x`,0 equal a prefix-sibling and
its config key sits under `x`'s delete prefix; `a:1` shares the in-memory delete prefix of `a`.
The fixed rule rejects all of them. -/
theorem _root_.KafVerif.C22.old_rule_aliases :
    acceptedOld (str "a/../orders") = true ∧ accepted (str "a/../orders") = false ∧
    segmentKey (str "default") (str "a/../orders") 0 0 = segmentKey (str "default") (str "orders") 0 0 ∧
    acceptedOld (str "x/0") = true ∧ accepted (str "x/0") = false ∧
    segmentPrefix (str "default") (str "x") 0 <+: segmentKey (str "default") (str "x/0") 0 0 ∧
    acceptedOld (str "x/partitions/0") = true ∧ accepted (str "x/partitions/0") = false ∧
    topicDeletePrefix (str "x") <+: topicConfigKey (str "x/partitions/0") ∧
    acceptedOld (str "a:1") = true ∧ accepted (str "a:1") = false ∧
    memDeletePrefix (str "a") <+: partitionKey (str "a:1") 0 ∧
    accepted (str "..") = false ∧ accepted (str ".") = false ∧ accepted [] = false := by
  refine ⟨by decide, by decide, by decide, by decide, by decide, ?_, by decide, by decide, ?_, by decide, by decide, ?_,
    by decide, by decide, by decide⟩
  · exact ⟨str "0/segment-00000000000000000000.kfs", by decide⟩
  · exact ⟨str "partitions/0/config", by decide⟩
  · exact ⟨str "1:0", by decide⟩

/-! ### the singleflight key of `getPartitionLog`, as regenerated from the source -/

theorem legal_of_digit_or_minus {c : Char} (h : legalChar c = false) : c.isDigit = false ∧ c ≠ '-' := by
  constructor
  · cases hd : c.isDigit with
    | false => rfl
    | true =>
      have h1 : '0' ≤ c ∧ c ≤ '9' := by
        simp only [Char.isDigit, Bool.and_eq_true, decide_eq_true_eq] at hd
        exact ⟨by simpa [Char.le_def] using hd.1, by simpa [Char.le_def] using hd.2⟩
      simp [legalChar, h1.1, h1.2] at h
  · intro e; subst e; simp [legalChar] at h

theorem fmtKey_safe {f : List Piece} (hf : formatSafe f = true) :
    ∃ c, legalChar c = false ∧ ∀ t p, fmtKey f t p = t ++ c :: intStr p := by
  match f, hf with
  | [.topic, .lit [c], .part], hf =>
    refine ⟨c, by simpa [formatSafe] using hf, ?_⟩
    intro t p; simp [fmtKey]

/-- **C22 (singleflight key, any safe format).** A key expression `topic ++ [c] ++ %d(partition)` whose
separator byte `c` is outside the legal topic alphabet (so in particular not a digit and not `-`) maps
different (accepted topic, partition) pairs to different strings — for ALL partitions (negative too). -/
theorem _root_.KafVerif.C22.loginit_format_injective (f : List Piece) (hf : formatSafe f = true)
    (t t' : List Char) (p p' : Int) (ha : accepted t = true) (ha' : accepted t' = true)
    (h : fmtKey f t p = fmtKey f t' p') : t = t' ∧ p = p' := by
  obtain ⟨c, hc, hk⟩ := fmtKey_safe hf
  have hd := legal_of_digit_or_minus hc
  have hn : ∀ {s : List Char}, accepted s = true → c ∉ s := fun hs hm => by
    have := accepted_legal hs c hm; simp [hc] at this
  rw [hk, hk] at h
  exact sep2_inj (hn ha) (hn ha') hd.1 hd.2 h

example : formatSafe logInitFormat = true ∧ formatSafe [.topic, .lit [':'], .part] = true ∧
    fmtKey logInitFormat (str "t1") 0 = str "t1/0" ∧ logInitKey (str "t") 10 = fmtKey logInitFormat (str "t") 10 := by decide

/-- **C22 (singleflight key, the current source).** `getPartitionLog` has exactly one
`logInit.Do(key, …)` call and its key expression — regenerated from cmd/broker/main.go by go/ast on every
run — is a safe format; so two requests share an initialisation (and the resulting `*PartitionLog`) only
when they name the same accepted topic and the same partition. -/
theorem _root_.KafVerif.C22.loginit_src_injective :
    ∃ f, KafVerif.Gen.C22.logInitSites = [f] ∧
      ∀ (t t' : List Char) (p p' : Int), accepted t = true → accepted t' = true →
        fmtKey f t p = fmtKey f t' p' → t = t' ∧ p = p' := by
  have hs : (match KafVerif.Gen.C22.logInitSites with | [f] => formatSafe f | _ => false) = true := by decide
  match hm : KafVerif.Gen.C22.logInitSites, hs with
  | [f], hs => exact ⟨f, rfl, fun t t' p p' ha ha' h => KafVerif.C22.loginit_format_injective f hs t t' p p' ha ha' h⟩

example : accepted (str "t1") = true ∧ accepted (str "t") = true ∧ ((str "t1", (0 : Int)) ≠ (str "t", 10)) := by decide

/-- **C22 (why the separator matters).** Without it (`fmt.Sprint(topic, partition)`, `"%s%d"`) the accepted
names `t1` and `t` collide: (`t1`, 0) and (`t`, 10) get the same key `t10`, and the format is not safe. -/
theorem _root_.KafVerif.C22.loginit_nosep_collides :
    accepted (str "t1") = true ∧ accepted (str "t") = true ∧
    fmtKey [.topic, .part] (str "t1") 0 = fmtKey [.topic, .part] (str "t") 10 ∧
    fmtKey [.topic, .part] (str "logs2") 3 = fmtKey [.topic, .part] (str "logs") 23 ∧
    formatSafe [.topic, .part] = false ∧ formatSafe [.topic, .lit ['-'], .part] = false ∧
    formatSafe [.topic, .lit ['1'], .part] = false := by decide

end KafVerif.MetaKeys
