import KafVerif.Model.Idoc
/-!
C45 — IDoc explode emits each element once with consistent routing.

Statement (properties.jsonl): exploding a well-formed IDoc XML document yields exactly one segment
entry per element, listed in the order the elements close.  Each routed list holds exactly the
segments whose names are configured for that route.  A routed segment's fields are its direct
children with non-empty text.  Quantifier: every XML tree and routing configuration.

All theorems are for EVERY tree (any depth/width/names/attributes/text, mixed content), EVERY
forest of top-level nodes and EVERY configuration (overlapping routes, blank entries, …), by
structural induction over the tree; the machine is the loop body of `ExplodeXML` on the token
stream of the tree.
-/
namespace KafVerif.Idoc
open KafVerif.GoStr

/-! ### results: appending segments -/

def addSegs (cfg : Cfg) (r : Res) (segs : List Seg) : Res := segs.foldl (addSeg cfg) r

theorem addSegs_nil (cfg : Cfg) (r : Res) : addSegs cfg r [] = r := rfl

theorem addSegs_append (cfg : Cfg) (r : Res) (a b : List Seg) :
    addSegs cfg r (a ++ b) = addSegs cfg (addSegs cfg r a) b := by
  simp [addSegs, List.foldl_append]

theorem addSegs_single (cfg : Cfg) (r : Res) (s : Seg) : addSegs cfg r [s] = addSeg cfg r s := rfl

theorem addSegs_header (cfg : Cfg) (r : Res) (segs : List Seg) : (addSegs cfg r segs).header = r.header := by
  induction segs generalizing r with
  | nil => rfl
  | cons s segs ih => simp only [addSegs, List.foldl_cons] at ih ⊢; rw [ih]; rfl

/-- closed form of what a run appends to the six result lists -/
theorem addSegs_lists (cfg : Cfg) (r : Res) (segs : List Seg) :
    (addSegs cfg r segs).segments = r.segments ++ segs ∧
    (addSegs cfg r segs).items = r.items ++ segs.filter (fun s => inSet cfg.items s.name) ∧
    (addSegs cfg r segs).partners = r.partners ++ segs.filter (fun s => inSet cfg.partners s.name) ∧
    (addSegs cfg r segs).statuses = r.statuses ++ segs.filter (fun s => inSet cfg.statuses s.name) ∧
    (addSegs cfg r segs).dates = r.dates ++ segs.filter (fun s => inSet cfg.dates s.name) := by
  induction segs generalizing r with
  | nil => simp [addSegs]
  | cons s segs ih =>
    have h := ih (addSeg cfg r s)
    simp only [addSegs, List.foldl_cons] at h ⊢
    obtain ⟨h1, h2, h3, h4, h5⟩ := h
    refine ⟨?_, ?_, ?_, ?_, ?_⟩
    · rw [h1]; simp [addSeg]
    · rw [h2]; simp only [addSeg, List.filter_cons]; split <;> simp
    · rw [h3]; simp only [addSeg, List.filter_cons]; split <;> simp
    · rw [h4]; simp only [addSeg, List.filter_cons]; split <;> simp
    · rw [h5]; simp only [addSeg, List.filter_cons]; split <;> simp

theorem setHeader_isSome (r : Res) (n : Str) (a : SMap) : (setHeader r n a).header.isSome = true := by
  unfold setHeader; split <;> simp_all

theorem setHeader_of_isSome (r : Res) (n : Str) (a : SMap) (h : r.header.isSome = true) : setHeader r n a = r := by
  unfold setHeader; split
  · simp_all
  · rfl

/-! ### the machine on the tokens of a tree -/

theorem runFrom_append (cfg : Cfg) (st : List Frame × Res) (a b : List Tok) :
    runFrom cfg st (a ++ b) = runFrom cfg (runFrom cfg st a) b := by
  simp [runFrom, List.foldl_append]

theorem runFrom_cons (cfg : Cfg) (st : List Frame × Res) (t : Tok) (ts : List Tok) :
    runFrom cfg st (t :: ts) = runFrom cfg (step cfg st t) ts := rfl

/-- the frame on top of the stack after all children `cs` of its element were processed -/
def afterChildren (f : Frame) (cs : List Node) : Frame :=
  { f with value := f.value ++ directText cs, fields := f.fields.map (fieldsOf cs) }

theorem names_cons (f : Frame) (stk : List Frame) : names (f :: stk) = names stk ++ [f.name] := by
  simp [names]

theorem fieldsOf_cons (c : Node) (cs : List Node) (m : SMap) :
    fieldsOf (c :: cs) m = fieldsOf cs (match childField c with | some kv => mapSet m kv.1 kv.2 | none => m) := rfl

/-- effect of one finished child element on the parent frame -/
theorem pushFieldKV_cons (f : Frame) (stk : List Frame) (k v : Str) :
    pushFieldKV (f :: stk) k v =
      { f with fields := f.fields.map fun m => if v = [] then m else mapSet m k v } :: stk := by
  unfold pushFieldKV
  by_cases hv : v = []
  · simp only [hv, if_true]
    cases hf : f.fields <;> cases f <;> simp_all
  · simp only [hv, if_false]
    cases hf : f.fields <;> cases f <;> simp_all

mutual
/-- processing the tokens of one node -/
theorem run_node (cfg : Cfg) : ∀ (nd : Node) (f : Frame) (stk : List Frame) (res : Res) (rest : List Tok),
    res.header.isSome = true →
    runFrom cfg (f :: stk, res) (toks nd ++ rest) =
      runFrom cfg (afterChildren f [nd] :: stk, addSegs cfg res (postorder cfg (names (f :: stk)) nd)) rest
  | .text s, f, stk, res, rest, _ => by
    obtain ⟨fn, fp, fa, fv, ff⟩ := f
    cases ff <;> simp [toks, runFrom_cons, step, stepWith, pushText, afterChildren, directText, fieldsOf, childField, postorder, addSegs_nil]
  | .elem n a cs, f, stk, res, rest, hres => by
    have hstart : toks (.elem n a cs) ++ rest = Tok.start n a :: (toksL cs ++ (Tok.stop :: rest)) := by
      simp [toks, List.append_assoc]
    rw [hstart, runFrom_cons]
    -- after the start token
    have hst : step cfg (f :: stk, res) (Tok.start n a) =
        ({ name := n, path := mkPath (names (f :: stk)) n, attrs := attrsToMap a, value := [],
           fields := if isRouted cfg n then some [] else none } :: f :: stk, res) := by
      simp [step, stepWith, setHeader_of_isSome res n _ hres]
    rw [hst, run_list cfg cs _ (f :: stk) res (Tok.stop :: rest) hres, runFrom_cons]
    -- the stop token
    simp only [step, stepWith, afterChildren, segOfFrame, List.nil_append]
    rw [pushFieldKV_cons]
    refine congrArg (fun st => runFrom cfg st rest) (Prod.ext ?_ ?_)
    · show _ :: stk = _ :: stk
      congr 1
      obtain ⟨fn, fp, fa, fv, ff⟩ := f
      cases ff with
      | none => simp [directText]
      | some m =>
        by_cases hv : trimSpace (directText cs) = [] <;> simp [directText, fieldsOf, childField, hv]
    · show _ = addSegs cfg res _
      simp only [postorder, addSegs_append, addSegs_single, names_cons]
      congr 1
      simp only [specSeg]
      congr 1
      cases isRouted cfg n <;> simp
/-- processing the tokens of a list of sibling nodes under the open frame `f` -/
theorem run_list (cfg : Cfg) : ∀ (cs : List Node) (f : Frame) (stk : List Frame) (res : Res) (rest : List Tok),
    res.header.isSome = true →
    runFrom cfg (f :: stk, res) (toksL cs ++ rest) =
      runFrom cfg (afterChildren f cs :: stk, addSegs cfg res (postorderL cfg (names (f :: stk)) cs)) rest
  | [], f, stk, res, rest, _ => by
    obtain ⟨fn, fp, fa, fv, ff⟩ := f
    cases ff <;> simp [toksL, afterChildren, directText, fieldsOf, postorderL, addSegs_nil]
  | c :: cs, f, stk, res, rest, hres => by
    have h1 : toksL (c :: cs) ++ rest = toks c ++ (toksL cs ++ rest) := by simp [toksL, List.append_assoc]
    rw [h1, run_node cfg c f stk res _ hres]
    have hres' : (addSegs cfg res (postorder cfg (names (f :: stk)) c)).header.isSome = true := by
      rw [addSegs_header]; exact hres
    rw [run_list cfg cs (afterChildren f [c]) stk _ rest hres']
    have hn : names (afterChildren f [c] :: stk) = names (f :: stk) := by simp [names, afterChildren]
    rw [hn]
    refine congrArg (fun st => runFrom cfg st rest) (Prod.ext ?_ ?_)
    · show _ :: stk = _ :: stk
      congr 1
      obtain ⟨fn, fp, fa, fv, ff⟩ := f
      cases c with
      | text s => cases ff <;> simp [afterChildren, directText, fieldsOf, childField, List.append_assoc]
      | elem n a ccs => cases ff <;> simp [afterChildren, directText, fieldsOf, childField]
    · show addSegs cfg (addSegs cfg res _) _ = addSegs cfg res _
      simp [postorderL, addSegs_append]
end

/-! ### top level: a forest of nodes with an empty stack -/

/-- header after a forest: the first element's name and attributes (if not set before) -/
def headerAfter (h : Option (Str × SMap)) : List Node → Option (Str × SMap)
  | [] => h
  | .text _ :: cs => headerAfter h cs
  | .elem n a _ :: cs => headerAfter (match h with | none => some (n, attrsToMap a) | some x => some x) cs

theorem headerAfter_some (x : Str × SMap) (cs : List Node) : headerAfter (some x) cs = some x := by
  induction cs with
  | nil => rfl
  | cons c cs ih => cases c <;> simp [headerAfter, ih]

/-- one top-level element: the root frame is pushed on the empty stack -/
theorem run_root (cfg : Cfg) (n : Str) (a : List (Str × Str)) (cs : List Node) (res : Res) (rest : List Tok) :
    runFrom cfg ([], res) (toks (.elem n a cs) ++ rest) =
      runFrom cfg ([], addSegs cfg (setHeader res n (attrsToMap a)) (postorder cfg [] (.elem n a cs))) rest := by
  have hstart : toks (.elem n a cs) ++ rest = Tok.start n a :: (toksL cs ++ (Tok.stop :: rest)) := by
    simp [toks, List.append_assoc]
  rw [hstart, runFrom_cons]
  have hst : step cfg ([], res) (Tok.start n a) =
      ([{ name := n, path := mkPath [] n, attrs := attrsToMap a, value := [],
          fields := if isRouted cfg n then some [] else none }], setHeader res n (attrsToMap a)) := by
    simp [step, stepWith, names]
  rw [hst, run_list cfg cs _ [] _ (Tok.stop :: rest) (setHeader_isSome _ _ _), runFrom_cons]
  simp only [step, stepWith, afterChildren, segOfFrame, List.nil_append, pushFieldKV]
  refine congrArg (fun st => runFrom cfg st rest) (Prod.ext ?_ ?_)
  · show (if trimSpace (directText cs) = [] then [] else []) = ([] : List Frame)
    split <;> rfl
  · show _ = addSegs cfg (setHeader res n (attrsToMap a)) _
    simp only [postorder, addSegs_append, addSegs_single, names, List.map_cons, List.map_nil, List.reverse_cons,
      List.reverse_nil, List.nil_append]
    congr 1
    simp only [specSeg]
    congr 1
    cases isRouted cfg n <;> simp

def withHeader (r : Res) (h : Option (Str × SMap)) : Res := { r with header := h }

theorem addSeg_withHeader (cfg : Cfg) (r : Res) (h : Option (Str × SMap)) (s : Seg) :
    addSeg cfg (withHeader r h) s = withHeader (addSeg cfg r s) h := by
  simp [addSeg, withHeader]

theorem addSegs_withHeader (cfg : Cfg) (r : Res) (h : Option (Str × SMap)) (segs : List Seg) :
    addSegs cfg (withHeader r h) segs = withHeader (addSegs cfg r segs) h := by
  induction segs generalizing r with
  | nil => rfl
  | cons s segs ih =>
    simp only [addSegs, List.foldl_cons] at ih ⊢
    rw [addSeg_withHeader, ih]

theorem run_forest (cfg : Cfg) (forest : List Node) (res : Res) (rest : List Tok) :
    runFrom cfg ([], res) (toksL forest ++ rest) =
      runFrom cfg ([], addSegs cfg (withHeader res (headerAfter res.header forest)) (postorderL cfg [] forest)) rest := by
  induction forest generalizing res with
  | nil => simp [toksL, headerAfter, postorderL, addSegs_nil, withHeader]
  | cons c cs ih =>
    have h1 : toksL (c :: cs) ++ rest = toks c ++ (toksL cs ++ rest) := by simp [toksL, List.append_assoc]
    rw [h1]
    cases c with
    | text s =>
      have : runFrom cfg ([], res) (toks (.text s) ++ (toksL cs ++ rest)) = runFrom cfg ([], res) (toksL cs ++ rest) := by
        simp [toks, runFrom_cons, step, stepWith, pushText]
      rw [this, ih]
      simp [headerAfter, postorderL, postorder]
    | elem n a ccs =>
      rw [run_root, ih]
      refine congrArg (fun r => runFrom cfg ([], r) rest) ?_
      rw [addSegs_header, addSegs_withHeader, postorderL, addSegs_append]
      -- the header of `setHeader res n _` is what `headerAfter` starts from for the remaining nodes
      have hh : (setHeader res n (attrsToMap a)).header =
          (match res.header with | none => some (n, attrsToMap a) | some x => some x) := by
        unfold setHeader; split <;> simp_all
      have hw : ∀ h, withHeader (setHeader res n (attrsToMap a)) h = withHeader res h := by
        intro h; unfold setHeader withHeader; cases res.header <;> rfl
      rw [hh, ← addSegs_withHeader, ← addSegs_withHeader, hw]
      simp [headerAfter]

/-- **Refinement**: `ExplodeXML` on the token stream of any forest of well-formed trees (fixed
code) returns exactly: header = first element, Segments = post-order (closing order) list of all
elements, and each routed list = the sub-list of Segments whose names are configured for it. -/
theorem _root_.KafVerif.C45.explode_eq_spec (cfg : Cfg) (forest : List Node) :
    explode cfg (toksL forest) =
      { header := headerAfter none forest
        segments := postorderL cfg [] forest
        items := (postorderL cfg [] forest).filter (fun s => inSet cfg.items s.name)
        partners := (postorderL cfg [] forest).filter (fun s => inSet cfg.partners s.name)
        statuses := (postorderL cfg [] forest).filter (fun s => inSet cfg.statuses s.name)
        dates := (postorderL cfg [] forest).filter (fun s => inSet cfg.dates s.name) } := by
  unfold explode
  have h := run_forest cfg forest Res.empty []
  simp only [List.append_nil] at h
  rw [h]
  simp only [runFrom, List.foldl_nil]
  have hl := addSegs_lists cfg (withHeader Res.empty (headerAfter Res.empty.header forest)) (postorderL cfg [] forest)
  have hh := addSegs_header cfg (withHeader Res.empty (headerAfter Res.empty.header forest)) (postorderL cfg [] forest)
  generalize addSegs cfg _ _ = r at hl hh
  obtain ⟨h1, h2, h3, h4, h5⟩ := hl
  cases r
  simp_all [Res.empty, withHeader]

/-! ### the clauses of the property for a document (one root element) -/

mutual
theorem postorder_length (cfg : Cfg) (anc : List Str) : ∀ nd : Node, (postorder cfg anc nd).length = countElems nd
  | .text _ => rfl
  | .elem n a cs => by simp [postorder, countElems, postorderL_length cfg (anc ++ [n]) cs]
theorem postorderL_length (cfg : Cfg) (anc : List Str) : ∀ cs : List Node, (postorderL cfg anc cs).length = countElemsL cs
  | [] => rfl
  | c :: cs => by simp [postorderL, countElemsL, postorder_length cfg anc c, postorderL_length cfg anc cs]
end

/-- **One segment entry per element, in closing order.** -/
theorem _root_.KafVerif.C45.segments_postorder (cfg : Cfg) (root : Node) :
    (explode cfg (toks root)).segments = postorder cfg [] root ∧
    (explode cfg (toks root)).segments.length = countElems root := by
  have h := KafVerif.C45.explode_eq_spec cfg [root]
  simp only [toksL, List.append_nil, postorderL] at h
  rw [h]
  exact ⟨rfl, by simpa using postorder_length cfg [] root⟩

/-- **Each routed list holds exactly the segments configured for that route**, in order —
also when one name is configured for several routes. -/
theorem _root_.KafVerif.C45.routes_exact (cfg : Cfg) (forest : List Node) :
    (explode cfg (toksL forest)).items = (explode cfg (toksL forest)).segments.filter (fun s => inSet cfg.items s.name) ∧
    (explode cfg (toksL forest)).partners = (explode cfg (toksL forest)).segments.filter (fun s => inSet cfg.partners s.name) ∧
    (explode cfg (toksL forest)).statuses = (explode cfg (toksL forest)).segments.filter (fun s => inSet cfg.statuses s.name) ∧
    (explode cfg (toksL forest)).dates = (explode cfg (toksL forest)).segments.filter (fun s => inSet cfg.dates s.name) := by
  rw [KafVerif.C45.explode_eq_spec]
  exact ⟨rfl, rfl, rfl, rfl⟩

/-! fields: lookup characterisation of `fieldsOf` -/

theorem mapGet_mapSet (m : SMap) (k v k' : Str) :
    mapGet (mapSet m k v) k' = if k' = k then some v else mapGet m k' := by
  unfold mapGet mapSet
  by_cases h : k' = k
  · subst h
    have : (m.filter fun e => e.1 != k').find? (fun e => e.1 == k') = none := by
      rw [List.find?_eq_none]; intro x hx; simp at hx; simpa using hx.2
    simp [List.find?_append, this]
  · simp only [h, if_false, List.find?_append]
    have h2 : (m.filter fun e => e.1 != k).find? (fun e => e.1 == k') = m.find? (fun e => e.1 == k') := by
      induction m with
      | nil => rfl
      | cons e m ih =>
        by_cases he : e.1 = k
        · have hne : (e.1 == k') = false := by rw [he]; simpa using fun hh => h hh.symm
          have hf : (e.1 != k) = false := by simp [he]
          simp [List.filter_cons, hf, List.find?_cons, hne, ih]
        · have hf : (e.1 != k) = true := by simpa using he
          cases hee : (e.1 == k') <;> simp [List.filter_cons, hf, List.find?_cons, hee, ih]
    rw [h2]
    cases hf : m.find? (fun e => e.1 == k') with
    | some x => simp
    | none =>
      have : ¬ (k == k') = true := by simpa using fun hh => h hh.symm
      simp [List.find?_cons, this]

/-- the last child named `k` that has non-empty trimmed direct text, if any -/
def lastField (cs : List Node) (k : Str) : Option Str :=
  ((cs.filterMap childField).reverse.find? fun kv => kv.1 == k).map (·.2)

theorem fieldsOf_get (cs : List Node) (m : SMap) (k : Str) :
    mapGet (fieldsOf cs m) k = match lastField cs k with | some v => some v | none => mapGet m k := by
  induction cs generalizing m with
  | nil => simp [fieldsOf, lastField]
  | cons c cs ih =>
    rw [fieldsOf_cons, ih]
    unfold lastField
    cases hc : childField c with
    | none => simp [List.filterMap_cons, hc]
    | some kv =>
      simp only [List.filterMap_cons, hc, List.reverse_cons, List.find?_append]
      cases hf : (List.filterMap childField cs).reverse.find? (fun kv => kv.1 == k) with
      | some x => simp
      | none =>
        simp only [Option.or_none, Option.map_none, mapGet_mapSet, List.find?_cons, List.find?_nil]
        by_cases hk : kv.1 = k
        · simp [hk]
        · have hb : (kv.1 == k) = false := by simpa using hk
          have : ¬ (k = kv.1) := fun hh => hk hh.symm
          simp [hk, this, hb]

/-- **A routed segment's fields are its direct children with non-empty text**: for every element
`n a cs` of the document, at any depth, its entry is `specSeg`, whose `Fields` map sends a name `k`
to the trimmed direct text of the LAST direct child element named `k` with non-empty text (and has
no other entries); an unrouted element has no Fields. -/
theorem _root_.KafVerif.C45.fields_direct (cfg : Cfg) (anc : List Str) (n : Str) (a : List (Str × Str)) (cs : List Node) :
    (specSeg cfg anc n a cs).value = trimSpace (directText cs) ∧
    (isRouted cfg n = false → (specSeg cfg anc n a cs).fields = none) ∧
    (isRouted cfg n = true → ∃ m, (specSeg cfg anc n a cs).fields = some m ∧ ∀ k, mapGet m k = lastField cs k) := by
  refine ⟨rfl, ?_, ?_⟩
  · intro h; simp [specSeg, h]
  · intro h
    refine ⟨fieldsOf cs [], by simp [specSeg, h], ?_⟩
    intro k
    rw [fieldsOf_get]
    cases lastField cs k <;> simp [mapGet]

/-- every entry of `Segments` IS the `specSeg` of an element of the tree (membership form) -/
inductive IsElem : List Str → Node → List Str → Str → List (Str × Str) → List Node → Prop
  | self (anc n a cs) : IsElem anc (.elem n a cs) anc n a cs
  | inChild (anc n a cs c anc' n' a' cs') : c ∈ cs → IsElem (anc ++ [n]) c anc' n' a' cs' → IsElem anc (.elem n a cs) anc' n' a' cs'

mutual
theorem mem_postorder (cfg : Cfg) : ∀ (nd : Node) (anc : List Str) (s : Seg), s ∈ postorder cfg anc nd →
    ∃ anc' n a cs, IsElem anc nd anc' n a cs ∧ s = specSeg cfg anc' n a cs
  | .text _, _, s, h => by simp [postorder] at h
  | .elem n a cs, anc, s, h => by
    simp only [postorder, List.mem_append, List.mem_singleton] at h
    rcases h with h | h
    · obtain ⟨c, hc, anc', n', a', cs', he, hs⟩ := mem_postorderL cfg cs (anc ++ [n]) s h
      exact ⟨anc', n', a', cs', IsElem.inChild anc n a cs c anc' n' a' cs' hc he, hs⟩
    · exact ⟨anc, n, a, cs, IsElem.self anc n a cs, h⟩
theorem mem_postorderL (cfg : Cfg) : ∀ (cs : List Node) (anc : List Str) (s : Seg), s ∈ postorderL cfg anc cs →
    ∃ c ∈ cs, ∃ anc' n a cs', IsElem anc c anc' n a cs' ∧ s = specSeg cfg anc' n a cs'
  | [], _, s, h => by simp [postorderL] at h
  | c :: cs, anc, s, h => by
    simp only [postorderL, List.mem_append] at h
    rcases h with h | h
    · obtain ⟨anc', n, a, cs', he, hs⟩ := mem_postorder cfg c anc s h
      exact ⟨c, by simp, anc', n, a, cs', he, hs⟩
    · obtain ⟨c', hc', rest⟩ := mem_postorderL cfg cs anc s h
      exact ⟨c', by simp [hc'], rest⟩
end

/-- every segment entry of a document is the prescribed entry of one of its elements -/
theorem _root_.KafVerif.C45.segments_are_elements (cfg : Cfg) (root : Node) (s : Seg)
    (h : s ∈ (explode cfg (toks root)).segments) :
    ∃ anc n a cs, IsElem [] root anc n a cs ∧ s = specSeg cfg anc n a cs := by
  rw [(KafVerif.C45.segments_postorder cfg root).1] at h
  exact mem_postorder cfg root [] s h

/-! ### call sequences: the result of a call depends on that call's configuration and document only -/

/-- Any per-process state threaded through the calls is invisible as long as every step answers
`explode` of its own arguments under an invariant it preserves. -/
theorem runCallsWith_transparent {σ : Type} (f : σ → Call → σ × Res) (Inv : σ → Prop)
    (h : ∀ st c, Inv st → Inv (f st c).1 ∧ (f st c).2 = explode c.1 c.2) :
    ∀ (calls : List Call) (st : σ), Inv st → runCallsWith f st calls = calls.map fun c => explode c.1 c.2 := by
  intro calls
  induction calls with
  | nil => intros; rfl
  | cons c cs ih =>
    intro st hst
    obtain ⟨h1, h2⟩ := h st c hst
    simp only [runCallsWith, List.map_cons, h2, ih _ h1]

theorem runCalls_eq_map (calls : List Call) : runCalls calls = calls.map fun c => explode c.1 c.2 :=
  runCallsWith_transparent callStep (fun _ => True) (fun _ _ _ => ⟨trivial, rfl⟩) calls () trivial

/-- **No cross-call state.**  In EVERY sequence of calls made by one process — whatever was exploded
before (`pre`) and whatever is exploded afterwards (`post`), with whatever configurations — the result
of a call is `explode` of the configuration value and the document given to THAT call; the same
call gets the same result in any other history; every call gets exactly one result. -/
theorem _root_.KafVerif.C45.explode_depends_only_on_own_call (pre post : List Call) (c : Call) :
    (runCalls (pre ++ c :: post))[pre.length]? = some (explode c.1 c.2) ∧
    (∀ pre' post' : List Call,
      (runCalls (pre' ++ c :: post'))[pre'.length]? = (runCalls (pre ++ c :: post))[pre.length]?) ∧
    (runCalls (pre ++ c :: post)).length = pre.length + 1 + post.length := by
  have key : ∀ a b : List Call, (runCalls (a ++ c :: b))[a.length]? = some (explode c.1 c.2) := by
    intro a b
    rw [runCalls_eq_map, List.map_append, List.map_cons]
    have hl : a.length = (a.map fun c => explode c.1 c.2).length := by simp
    rw [hl, List.getElem?_append_right (Nat.le_refl _)]
    simp
  refine ⟨key pre post, fun pre' post' => by rw [key, key], ?_⟩
  rw [runCalls_eq_map]; simp; omega

/-- the record the property prescribes for a document (right-hand side of `explode_eq_spec`) -/
def specRes (cfg : Cfg) (forest : List Node) : Res :=
  { header := headerAfter none forest
    segments := postorderL cfg [] forest
    items := (postorderL cfg [] forest).filter (fun s => inSet cfg.items s.name)
    partners := (postorderL cfg [] forest).filter (fun s => inSet cfg.partners s.name)
    statuses := (postorderL cfg [] forest).filter (fun s => inSet cfg.statuses s.name)
    dates := (postorderL cfg [] forest).filter (fun s => inSet cfg.dates s.name) }

/-- **Every call of a sequence meets the property for its own configuration**: exploding the
documents `docs` one after the other in one process, each with its own configuration, yields for
each of them the prescribed record (one entry per element in closing order, routed lists = the
sub-lists configured in THAT call's configuration, fields = direct children with text). -/
theorem _root_.KafVerif.C45.calls_eq_spec (docs : List (Cfg × List Node)) :
    runCalls (docs.map fun d => (d.1, toksL d.2)) = docs.map fun d => specRes d.1 d.2 := by
  rw [runCalls_eq_map, List.map_map]
  apply List.map_congr_left
  intro d _
  exact KafVerif.C45.explode_eq_spec d.1 d.2

/-- A memo of the last configuration that keeps its OWN copy of the key (compare by value) is
transparent: invariant "the remembered sets were built from the remembered key". -/
theorem _root_.KafVerif.C45.value_keyed_memo_transparent (calls : List Call) :
    runCallsWith memoStep none calls = calls.map fun c => explode c.1 c.2 := by
  refine runCallsWith_transparent memoStep (fun st => ∀ m, st = some m → m.key = m.built) ?_ calls none (by simp)
  intro st c hinv
  cases st with
  | none => simp [memoStep]
  | some m =>
    have hm := hinv m rfl
    by_cases hk : m.key = c.1
    · simp only [memoStep, hk, if_true]
      exact ⟨hinv, by rw [← hm, hk]⟩
    · simp [memoStep, hk]

def cfgItemsP : Cfg := { items := ["E1EDP01".toList], partners := [], statuses := [], dates := [] }
def cfgItemsK : Cfg := { items := ["E1EDKA1".toList], partners := [], statuses := [], dates := [] }
def docPK : List Tok := toks (.elem ['R'] [] [.elem "E1EDP01".toList [] [.text ['1']], .elem "E1EDKA1".toList [] [.text ['2']]])

/-- … whereas a memo whose key ALIASES the caller's slices is not: the caller rewrites its routing
list in place (same length), the remembered key changes with it, the comparison says "same
configuration" and the second call routes by the FIRST call's names. -/
theorem _root_.KafVerif.C45.aliased_memo_violates :
    ∃ calls : List (Call × Bool), runAliased none calls ≠ calls.map fun c => explode c.1.1 c.1.2 :=
  ⟨[((cfgItemsP, docPK), false), ((cfgItemsK, docPK), true)], by decide⟩

/-! non-vacuity: a two-call history where the second configuration differs from the first -/
example : (runCalls [(cfgItemsP, docPK), (cfgItemsK, docPK)]).map (fun r => r.items.map (·.name)) =
    [["E1EDP01".toList], ["E1EDKA1".toList]] := by decide
example : (runAliased none [((cfgItemsP, docPK), false), ((cfgItemsK, docPK), true)]).map (fun r => r.items.map (·.name)) =
    [["E1EDP01".toList], ["E1EDP01".toList]] := by decide
example : (runCallsWith memoStep none [(cfgItemsP, docPK), (cfgItemsK, docPK), (cfgItemsK, docPK)]).map
    (fun r => r.items.map (·.name)) = [["E1EDP01".toList], ["E1EDKA1".toList], ["E1EDKA1".toList]] := by decide

/-! ### the code as found: a name configured for two routes lands only in the first -/

def cfgBoth : Cfg := { items := [['A']], partners := [['A']], statuses := [], dates := [] }
def docA : Node := .elem ['R'] [] [.elem ['A'] [] [.text ['x']]]

theorem _root_.KafVerif.C45.old_violates_routes :
    ∃ cfg root, (explodeOld cfg (toks root)).partners ≠
      (explodeOld cfg (toks root)).segments.filter (fun s => inSet cfg.partners s.name) :=
  ⟨cfgBoth, docA, by decide⟩

/-! non-vacuity -/
example : (explode cfgBoth (toks docA)).partners.length = 1 ∧ (explode cfgBoth (toks docA)).items.length = 1 := by decide
example : (explode cfgBoth (toks docA)).segments.map (·.path) = ["R/A".toList, "R".toList] := by decide
example : ((explode { cfgBoth with items := [['R']] } (toks docA)).segments.map (·.fields)) =
    [some [], some [(['A'], ['x'])]] := by decide

/-! ### no depth bound -/

/-- a chain of `n + 1` nested elements named `nm` (the innermost holds the text `t`) -/
def chain (nm t : Str) : Nat → Node
  | 0 => .elem nm [] [.text t]
  | n + 1 => .elem nm [] [chain nm t n]

theorem countElems_chain (nm t : Str) : ∀ n, countElems (chain nm t n) = n + 1
  | 0 => by simp [chain, countElems, countElemsL]
  | n + 1 => by simp [chain, countElems, countElemsL, countElems_chain nm t n]

/-- **Nesting depth is unbounded**: a document nested `n + 1` levels deep yields `n + 1` segment entries, for EVERY `n`
(instance of `segments_postorder`; there is no element stack limit in `ExplodeXML`). -/
theorem _root_.KafVerif.C45.deep_chain_all_emitted (cfg : Cfg) (nm t : Str) (n : Nat) :
    (explode cfg (toks (chain nm t n))).segments.length = n + 1 := by
  rw [(KafVerif.C45.segments_postorder cfg (chain nm t n)).2, countElems_chain]

/-- NOT the code: `ExplodeXML` with an element-stack bound `maxDepth` — a start tag arriving on a full stack is consumed
together with its whole subtree (`decoder.Skip()`); `skip` counts the open skipped elements. -/
def stepBounded (maxDepth : Nat) (cfg : Cfg) (st : Nat × List Frame × Res) : Tok → Nat × List Frame × Res
  | .start name attrs =>
    if st.1 > 0 then (st.1 + 1, st.2)
    else if st.2.1.length ≥ maxDepth then (1, st.2)
    else (0, step cfg st.2 (.start name attrs))
  | .text s => if st.1 > 0 then st else (0, step cfg st.2 (.text s))
  | .stop => if st.1 > 0 then (st.1 - 1, st.2) else (0, step cfg st.2 .stop)

def explodeBounded (maxDepth : Nat) (cfg : Cfg) (ts : List Tok) : Res :=
  (ts.foldl (stepBounded maxDepth cfg) (0, [], Res.empty)).2.2

def cfgNone : Cfg := { items := [], partners := [], statuses := [], dates := [] }

/-- **Witness: a stack bound drops elements.**  With bound 2 a chain of 4 elements yields 2 entries (the code: 4). -/
theorem _root_.KafVerif.C45.depth_bound_violates :
    (explodeBounded 2 cfgNone (toks (chain ['A'] ['x'] 3))).segments.length = 2 ∧
    (explode cfgNone (toks (chain ['A'] ['x'] 3))).segments.length = 4 ∧
    countElems (chain ['A'] ['x'] 3) = 4 := by decide

example : (explode cfgNone (toks (chain ['A'] ['x'] 40))).segments.length = 41 :=
  KafVerif.C45.deep_chain_all_emitted cfgNone ['A'] ['x'] 40

end KafVerif.Idoc
