import KafVerif.Props.C32
import KafVerif.Gen.C32Locks
/-!
C32, static tie of the concurrent model's locking parameter to the source: the lock-region skeletons of
`handleHTTPUploadPart` / `handleHTTPUploadComplete` / `handleHTTPUploadAbort` are regenerated from
`cmd/proxy/lfs_http.go` on every run (`KafVerif.Gen.C32Locks`); the theorems below are re-checked against them.
-/
namespace KafVerif.LfsLocks
open KafVerif.LfsHttp

/-- the part handler as it is in the source holds the session lock from before its first session access, across
the body read and the S3 `UploadPart` call, until it returns: the concurrent model's `hold = true` -/
theorem _root_.KafVerif.C32.source_part_handler_holds_lock_across_s3 :
    holdOf Gen.C32Locks.handleHTTPUploadPart = some true ∧
    callsS3 Gen.C32Locks.handleHTTPUploadPart "UploadPart" = true := by decide

/-- completion and abort are one lock region each (what `Ev.op` of the concurrent model assumes), and they are the
handlers that call S3 `CompleteMultipartUpload` / `AbortMultipartUpload` -/
theorem _root_.KafVerif.C32.source_complete_abort_are_one_lock_region :
    lockedAcross Gen.C32Locks.handleHTTPUploadComplete = true ∧
    callsS3 Gen.C32Locks.handleHTTPUploadComplete "CompleteMultipartUpload" = true ∧
    lockedAcross Gen.C32Locks.handleHTTPUploadAbort = true ∧
    callsS3 Gen.C32Locks.handleHTTPUploadAbort "AbortMultipartUpload" = true := by decide

/-- **C32 (multipart, concurrent requests, for the locking the SOURCE has).** Whatever `hold` the extracted
skeleton of `handleHTTPUploadPart` denotes, the concurrent machine with that `hold` is sound for every schedule. -/
theorem _root_.KafVerif.C32.http_ok_sound_source_locking (hold : Bool)
    (hsrc : holdOf Gen.C32Locks.handleHTTPUploadPart = some hold)
    (maxBlob : Int) (schedule : List Ev) (list : List (Nat × Etag)) (s3Fails : Bool) (b : Broker) (o : Out) :
    let cs := crun hold (CSt.init maxBlob) schedule
    let r := cstep hold cs (.op (.complete list s3Fails b))
    r.2 = some o → o.status = 200 →
      ∃ env, o.env = some env ∧ r.1.base.object = some env.shaOf ∧ dlen env.shaOf = env.size ∧
        acked b = true ∧ o.produced = true := by
  have h := KafVerif.C32.source_part_handler_holds_lock_across_s3.1
  rw [h] at hsrc
  have : hold = true := by simpa using hsrc.symm
  subst this
  exact KafVerif.C32.http_ok_sound_concurrent maxBlob schedule list s3Fails b o

/-- the skeleton of the split-lock variant (checks under the lock on a snapshot, unlock, body + S3 call, lock again
to record) denotes `hold = false` — the machine `split_lock_violates` is about -/
example : holdOf [.lock, .use "ExpiresAt", .use "Parts", .use "NextPart", .use "TotalUploaded", .unlock, .body,
    .s3 "UploadPart", .lock, .deferUnlock, .use "sha256Hasher", .use "Parts", .use "TotalUploaded", .use "NextPart"]
    = some false := by decide

end KafVerif.LfsLocks
