import KafVerif.Lemmas.LeaseInvAcq
import KafVerif.Lemmas.LeaseInvAcq2
import KafVerif.Lemmas.LeaseInvOps
import KafVerif.Lemmas.LeaseInvOps2
/-!
C18 — a partition or group lease has at most one live owner.

Statement (properties.jsonl): at no time do two brokers both believe they own the same partition
(or consumer-group) lease, for any order of acquire, release, session expiry and restart; a broker
releasing a lease never removes a lease that another broker has since acquired.  Quantifier: every
interleaving of acquire/release/expiry/restart across several brokers at etcd-operation granularity.

All ∀-theorems are about `Reach .byRev`: EVERY schedule (any length, any number of brokers and
resources) of the atomic steps of `Model/Lease.lean` — including aborted calls, dropped deletes /
revokes (etcd faults), spurious session losses and restarts — that respects the lease assumption
(`Enabled`: a lease is only expired by the server once no live manager has it as its session).
The model is the code WITH the proposed fix (`Release` deletes under a mod-revision guard); the
code as found (`uncond`) and the value-guard variant (`byValue`) are refuted by witnesses.
-/
namespace KafVerif.Lease

theorem inv_acqStep (s : State) (b r : Nat) (pc : PC) (h : Inv s) (hpc : s.acq b r = some pc) :
    Inv (acqStep s b r pc).1 := by
  cases pc with
  | g1 => exact inv_g1 s b r h hpc
  | grant => exact inv_grant s b r h hpc
  | g3 l => exact inv_g3 s b r l h hpc
  | txn l => exact inv_txn s b r l h hpc
  | ins l v => exact inv_ins s b r l v h hpc
  | mine l => exact inv_mine s b r l h hpc
  | notMine => exact inv_notMine s b r h hpc
  | errR => exact inv_errR s b r h hpc
  | re l => exact inv_re s b r l h hpc

/-- every atomic step preserves the invariant -/
theorem inv_step (s : State) (op : Op) (h : Inv s) (hen : Enabled s op) : Inv (step .byRev s op).1 := by
  cases op with
  | acquire b r => exact inv_acquire s b r h
  | step b r =>
    simp only [step]
    split
    · rename_i pc hpc; exact inv_acqStep s b r pc h hpc
    · exact h
  | abort b r => simp only [step]; exact inv_drop s b r h
  | release b r => exact inv_release s b r h
  | del i => exact inv_del s i h
  | dropDel i => exact inv_dropDel s i h
  | releaseAll b => exact inv_releaseAll s b h
  | revoke i => exact inv_revoke s i h
  | dropRevoke i => exact inv_dropRevoke s i h
  | sessionLost b => exact inv_sessionLost s b h
  | expire l => exact inv_expire s l h hen
  | crash b => exact inv_crash s b h

/-- **C18 (invariant).** `Inv` holds in every reachable state. -/
theorem _root_.KafVerif.C18.inv_reachable {s : State} (h : Reach .byRev s) : Inv s := by
  induction h with
  | init => exact inv_init
  | step op _ hen ih => exact inv_step _ op ih hen

/-- **C18 (owner ⇒ live key).** Whenever a broker believes it owns `r`, etcd's key for `r` carries
that broker and the live lease of the broker's current session. -/
theorem _root_.KafVerif.C18.owner_has_live_key {s : State} (h : Reach .byRev s) (b r : Nat) (ho : owns s b r = true) :
    ∃ l v, (s.mgr b).session = some l ∧ s.live l = true ∧ s.kv r = some ⟨b, l, v⟩ := by
  have hi := KafVerif.C18.inv_reachable h
  simp only [owns, Option.isSome_iff_exists] at ho
  obtain ⟨v, hv⟩ := ho
  obtain ⟨l, h1, h2, h3⟩ := hi.i1 b r v hv
  exact ⟨l, v, h1, h2, h3⟩

/-- **C18 (exclusive).** At no time do two brokers both believe they own the same lease. -/
theorem _root_.KafVerif.C18.exclusive {s : State} (h : Reach .byRev s) (b c r : Nat)
    (hb : owns s b r = true) (hc : owns s c r = true) : b = c := by
  obtain ⟨l, v, _, _, hk⟩ := KafVerif.C18.owner_has_live_key h b r hb
  obtain ⟨l', v', _, _, hk'⟩ := KafVerif.C18.owner_has_live_key h c r hc
  rw [hk] at hk'
  simpa using congrArg (fun o => o.map KV.owner) hk'

/-- **C18 (release is safe).** Whenever a pending `Release` delete of broker `d.broker` is about to
remove the key it finds, that key was written by `d.broker` itself, and no broker's ownership of
the resource (not even a newer one of `d.broker`) nor any pending guarded insert is backed by it. -/
theorem _root_.KafVerif.C18.release_safe {s : State} (h : Reach .byRev s) (i : Nat) (d : Del) (k : KV)
    (hd : s.dels[i]? = some d) (hk : s.kv d.res = some k) (hf : delFires d k = true) :
    k.owner = d.broker ∧ (∀ c, owns s c d.res = false) ∧
      (∀ c l, s.acq c d.res = some (.ins l k.modRev) → (s.mgr c).session ≠ some l) := by
  have hi := KafVerif.C18.inv_reachable h
  have hmem : d ∈ s.dels := List.mem_of_getElem? hd
  obtain ⟨v, hg⟩ := hi.g1 d hmem
  have hv : k.modRev = v := by simpa [delFires, hg] using hf
  refine ⟨hi.d1 d hmem v k hg hk hv, ?_, ?_⟩
  · intro c
    cases ho : (s.mgr c).owned d.res with
    | none => simp [owns, ho]
    | some v' =>
      obtain ⟨l, _, _, hk'⟩ := hi.i1 c d.res v' ho
      rw [hk] at hk'
      have : v' = v := by
        have := congrArg (fun o => o.map KV.modRev) hk'
        simp at this; omega
      subst this
      exact absurd hg (hi.t4 c d.res v' ho d hmem)
  · intro c l hpc hs
    exact absurd hg (hi.t2b c d.res l k.modRev hpc d hmem |> fun hne => by rw [hv] at hne; exact hne)

/-- **C18 (Acquire = nil ⇒ owned).** A lease-manager call returns nil only into a state in which
the resource is in the caller's ownership set (used by C19). -/
theorem _root_.KafVerif.C18.acquire_ok_owns (var : Variant) (s : State) (op : Op) (s' : State)
    (h : step var s op = (s', some .ok)) : ∃ b r, (op = .acquire b r ∨ op = .step b r) ∧ owns s' b r = true :=
  step_ok_owns var s op s' h

/-! ### the code as found, and the value-guarded variant, violate the property -/

/-- two distinct brokers both believe they own `r` -/
def TwoOwners (s : State) : Prop := ∃ b c r, b ≠ c ∧ owns s b r = true ∧ owns s c r = true

def full (b r : Nat) : List Op := [.acquire b r, .step b r, .step b r, .step b r, .step b r, .step b r]

def isExpire : Op → Bool
  | .expire _ => true
  | _ => false

theorem reach_run (var : Variant) (s : State) (ops : List Op) (h : Reach var s) (hne : ∀ op ∈ ops, isExpire op = false) :
    Reach var (run var s ops) := by
  induction ops generalizing s with
  | nil => exact h
  | cons op ops ih =>
    simp only [run, List.foldl_cons]
    apply ih
    · apply Reach.step op h
      have := hne op (by simp)
      cases op <;> simp_all [Enabled, isExpire]
    · intro o ho; exact hne o (by simp [ho])

/-- A releases (local step), A re-acquires through the reacquire path (the key still carries A),
the stale delete of the first Release removes the key backing A's new ownership, B acquires:
A and B both own.  No expiry is involved, so the schedule trivially respects the lease assumption. -/
def witnessReacquire : List Op :=
  full 0 0 ++ [.release 0 0] ++ full 0 0 ++ [.step 0 0, .del 0] ++ full 1 0

theorem _root_.KafVerif.C18.uncond_violates : ∃ s, Reach .uncond s ∧ TwoOwners s :=
  ⟨run .uncond init witnessReacquire, reach_run _ _ _ Reach.init (by decide), 0, 1, 0, by decide, by decide, by decide⟩

/-- guarding the delete by `Value(key) == brokerID` (the repair sketched first) is NOT enough -/
theorem _root_.KafVerif.C18.byValue_violates : ∃ s, Reach .byValue s ∧ TwoOwners s :=
  ⟨run .byValue init witnessReacquire, reach_run _ _ _ Reach.init (by decide), 0, 1, 0, by decide, by decide, by decide⟩

/-- the schedule replayed on the real code in the design phase: A releases (local step), A's
session is lost and its lease expires, B acquires, A's stale unconditional delete removes B's key,
C acquires: B and C both own. -/
def witnessStale : List Op :=
  full 0 0 ++ [.release 0 0, .sessionLost 0, .expire 0] ++ full 1 0 ++ [.del 0] ++ full 2 0

theorem _root_.KafVerif.C18.uncond_violates_stale_release :
    owns (run .uncond init witnessStale) 1 0 = true ∧ owns (run .uncond init witnessStale) 2 0 = true ∧
    (List.range 3).all (fun b => ((run .uncond init (full 0 0 ++ [.release 0 0, .sessionLost 0])).mgr b).session != some 0) = true := by
  decide

/-! ### non-vacuity: the fixed model does reach ownership, and the guarded delete does fire -/
example : owns (run .byRev init (full 0 0)) 0 0 = true := by decide
example : (run .byRev init (full 0 0 ++ [.release 0 0, .del 0])).kv 0 = none := by decide
example : owns (run .byRev init witnessReacquire) 0 0 = true ∧ owns (run .byRev init witnessReacquire) 1 0 = false := by decide
example : owns (run .byRev init witnessStale) 1 0 = true ∧ owns (run .byRev init witnessStale) 2 0 = false := by decide

end KafVerif.Lease
