-- Root of the KafVerif library: imports every property file (so `lake build` checks everything).
import KafVerif.Prelude.Basic
import KafVerif.Prelude.Hex
