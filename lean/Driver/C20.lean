import KafVerif.Model.Router
import KafVerif.Prelude.Driver
open KafVerif KafVerif.Router

/-! Line-protocol driver for the router model (C20); same lines as harness/C20/root/cmd/verif_c20. -/

structure D where
  fixed : Bool
  accl : List Nat
  w : World

def NK : Nat := 12

def D.acc (d : D) : Nat → Bool := fun k => d.accl.contains k

def showMap (t : Nat → Option Nat) : String :=
  joinWith "," ((List.range NK).filterMap fun k => (t k).map fun v => s!"{k}:b{v}")

def syncLine (d : D) : D × String :=
  let w := if d.w.r.watching then deliverN d.acc d.fixed (d.w.log.length - d.w.r.cursor) d.w else d.w
  let d' := { d with w := w }
  (d', s!"table={showMap w.r.table} lookup={showMap w.r.table} etcd={showMap (stateAt d.acc w.log w.log.length)}")

def ap (d : D) (op : Op) : D × String := ({ d with w := step d.acc d.fixed d.w op }, "-")

def stepLine (d : D) (ws : List String) : D × String :=
  match ws with
  | ["reset", v, accs] =>
    let accl := (accs.splitOn ",").filterMap String.toNat?
    ({ fixed := v != "norev", accl := accl, w := init }, "reset")
  | ["put", k, v] => match k.toNat?, v.toNat? with
    | some k, some v => ap d (.put k v)
    | _, _ => (d, "bad-op")
  | ["del", k] => match k.toNat? with
    | some k => ap d (.del k)
    | none => (d, "bad-op")
  | ["start"] => (d, "-")
  | ["load", "ok"] => ap d .load
  | ["load", "fail"] => ap d .loadFail
  | ["watch"] => ap d .watch
  | ["close"] => ap d .close
  | ["invalidate", k] => match k.toNat? with
    | some k => ap d (.invalidate k)
    | none => (d, "bad-op")
  | ["sync"] => syncLine d
  | _ => (d, "bad-op")

def main : IO Unit := runLines ({ fixed := true, accl := [], w := init } : D) stepLine
