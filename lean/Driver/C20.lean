import KafVerif.Model.Router
import KafVerif.Prelude.Driver
open KafVerif KafVerif.Router

/-! Line-protocol driver for the router model (C20); same lines as harness/C20/root/cmd/verif_c20. -/

structure D where
  var : Variant
  accl : List Nat
  w : World

def NK : Nat := 12

def D.acc (d : D) : Nat → Bool := fun k => d.accl.contains k

def showMap (t : Nat → Option Nat) : String :=
  joinWith "," ((List.range NK).filterMap fun k => (t k).map fun v => s!"{k}:b{v}")

/-- key id of the harness's sync sentinel (a key both parsers reject) -/
def SENT : Nat := 99

def syncLine (d : D) : D × String :=
  -- the harness commits a sentinel put + delete under the prefix and waits until the router has consumed them
  let w0 := if d.w.r.watching then step d.acc d.var (step d.acc d.var d.w (.put SENT 0)) (.del SENT) else d.w
  let w := if w0.r.watching then deliverN d.acc d.var (w0.log.length - w0.r.cursor) w0 else w0
  let d' := { d with w := w }
  (d', s!"watching={w.r.watching} table={showMap w.r.table} lookup={showMap w.r.table} etcd={showMap (stateAt d.acc w.log w.log.length)}")

def ap (d : D) (op : Op) : D × String := ({ d with w := step d.acc d.var d.w op }, "-")

def parseEv (w : String) : Option Ev :=
  match w.splitOn ":" with
  | ["p", k, v] => match k.toNat?, v.toNat? with
    | some k, some v => some (.put k v)
    | _, _ => none
  | ["d", k] => k.toNat?.map Ev.del
  | _ => none

def stepLine (d : D) (ws : List String) : D × String :=
  match ws with
  | ["reset", v, accs] =>
    let accl := (accs.splitOn ",").filterMap String.toNat?
    let var := if v == "norev" then Variant.noRev else if v == "skipsamerev" then Variant.skipSameRev else Variant.fixed
    ({ var := var, accl := accl, w := init }, "reset")
  | ["put", k, v] => match k.toNat?, v.toNat? with
    | some k, some v => ap d (.put k v)
    | _, _ => (d, "bad-op")
  | ["del", k] => match k.toNat? with
    | some k => ap d (.del k)
    | none => (d, "bad-op")
  | ["start"] => (d, "-")
  | ["load", "ok"] => ap d .load
  | ["load", "fail"] => ap d .loadFail
  | ["watch"] =>
    let w' := step d.acc d.var d.w .watch
    ({ d with w := w' }, if w'.r.watching then "-" else "watch-failed")
  | "batch" :: evs => ap d (.batch (evs.filterMap parseEv))
  | ["compact"] => ap d .compact
  | ["close"] => ap d .close
  | ["invalidate", k] => match k.toNat? with
    | some k => ap d (.invalidate k)
    | none => (d, "bad-op")
  | ["sync"] => syncLine d
  | _ => (d, "bad-op")

def main : IO Unit := runLines ({ var := .fixed, accl := [], w := init } : D) stepLine
