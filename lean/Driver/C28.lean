import KafVerif.Props.C28
import KafVerif.Prelude.Driver
/-!
Line-protocol driver for C28 (model of the proxy's metadata path).

ops (one per line):
  cfg <host> <port>     a NEW proxy (empty store, empty topic-name cache) with this advertised address
  warm refresh|backends   refreshMetadataCache / currentBackends on that proxy (ghost cache := cacheOf snapshot)
  resolve <tid>           resolveTopicID (refresh on a cache miss)
  snap brokers=<B,..|-> ctrl=<n> cluster=<s|~> topics=<T;..|->
        B = node:host:port   T = name|tid|err|internal|P,..   P = id:err:leader:epoch:r+..:i+..:o+..
  meta <v> <req>        req = all | empty | name@tid,name@tid,..      (name ~ = nil)
  coord <v> | nrmeta <v> <req> | nrcoord <v>
`snap` changes the snapshot of the SAME proxy (`InMemoryStore.Update`); the state between two `cfg`
lines is a `Session` of the model (current snapshot + ghost cache) advanced with `advance`, and
every reply is `replyWith` of that session, i.e. a function of the CURRENT snapshot.
Output: what a client decodes at version v, in the same text format.
`--monitor`: every op line is followed by a line `> <implementation output>`; the driver
evaluates the property predicates of KafVerif.Props.C28 (`onlyProxy`, `expectedShapes`,
`namesNobody`) on the IMPLEMENTATION's reply and prints `ok` or `violation <which>` (the op line
itself is answered with the model's output, so one run serves correspondence and monitor).
-/
open KafVerif KafVerif.ProxyMetadata

def encS (s : String) : String := if s.isEmpty then "^" else s
def decS (s : String) : String := if s = "^" then "" else s
def encO : Option String → String
  | none => "~"
  | some s => encS s
def decO (s : String) : Option String := if s = "~" then none else some (decS s)

def decId (s : String) : Option TopicId :=
  if s.startsWith "#" then some (.ofName (decS (s.drop 1).toString))
  else match s.toNat? with
    | some 0 => some .zero
    | some n => some (.lit n)
    | none => none
def encId : TopicId → String
  | .zero => "0"
  | .lit n => toString n
  | .ofName n => "#" ++ encS n

def ints (s : String) : List Int :=
  if s = "-" then [] else (s.splitOn "+").filterMap String.toInt?
def showInts (l : List Int) : String :=
  if l.isEmpty then "-" else joinWith "+" (l.map toString)

def parsePart (s : String) : Option Part :=
  match s.splitOn ":" with
  | [i, e, l, ep, r, isr, o] => do
    pure { id := ← i.toInt?, err := ← e.toInt?, leader := ← l.toInt?, epoch := ← ep.toInt?,
           replicas := ints r, isr := ints isr, offline := ints o }
  | _ => none
def showPart (p : Part) : String :=
  s!"{p.id}:{p.err}:{p.leader}:{p.epoch}:{showInts p.replicas}:{showInts p.isr}:{showInts p.offline}"

def parseTopic (s : String) : Option Topic :=
  match s.splitOn "|" with
  | [n, tid, e, i, ps] => do
    let parts ← if ps = "-" then some [] else (ps.splitOn ",").mapM parsePart
    pure { name := decO n, tid := ← decId tid, err := ← e.toInt?, internal := i = "1", parts := parts }
  | _ => none
def showTopic (t : Topic) : String :=
  let ps := if t.parts.isEmpty then "-" else joinWith "," (t.parts.map showPart)
  s!"{encO t.name}|{encId t.tid}|{t.err}|{if t.internal then 1 else 0}|{ps}"

def parseBroker (s : String) : Option Broker :=
  match s.splitOn ":" with
  | [n, h, p] => do pure { node := ← n.toInt?, host := decS h, port := ← p.toInt? }
  | _ => none
def showBroker (b : Broker) : String := s!"{b.node}:{encS b.host}:{b.port}"

def kv (ws : List String) (k : String) : Option String :=
  (ws.find? fun w => w.startsWith (k ++ "=")).map fun w => (w.drop (k.length + 1)).toString

def parseMeta (ws : List String) : Option Meta := do
  let b ← kv ws "brokers"
  let c ← kv ws "ctrl"
  let cl ← kv ws "cluster"
  let t ← kv ws "topics"
  let brokers ← if b = "-" then some [] else (b.splitOn ",").mapM parseBroker
  let topics ← if t = "-" then some [] else (t.splitOn ";").mapM parseTopic
  pure { brokers := brokers, controller := ← c.toInt?, cluster := decO cl, topics := topics }

def showMeta (m : Meta) : String :=
  let b := if m.brokers.isEmpty then "-" else joinWith "," (m.brokers.map showBroker)
  let t := if m.topics.isEmpty then "-" else joinWith ";" (m.topics.map showTopic)
  s!"brokers={b} ctrl={m.controller} cluster={encO m.cluster} topics={t}"

def parseReq (s : String) : Option (Option (List ReqTopic)) :=
  if s = "all" then some none
  else if s = "empty" then some (some [])
  else do
    let l ← (s.splitOn ",").mapM fun r =>
      match r.splitOn "@" with
      | [n, id] => do pure ({ name := decO n, tid := ← decId id } : ReqTopic)
      | _ => none
    pure (some l)

def parseCoord (ws : List String) : Option Coord := do
  pure { err := ← (← kv ws "err").toInt?, node := ← (← kv ws "node").toInt?,
         host := decS (← kv ws "host"), port := ← (← kv ws "port").toInt? }
def showCoord (c : Coord) : String := s!"err={c.err} node={c.node} host={encS c.host} port={c.port}"

def emptyMeta : Meta := { brokers := [], controller := 0, cluster := none, topics := [] }

structure St where
  host : String := ""
  port : Int := 0
  sess : Session := ⟨emptyMeta, []⟩
  pending : List String := []

def St.store (s : St) : Meta := s.sess.snap

/-- the model's reply to one Metadata request in the current session state -/
def sessReply (s : St) (req : Option (List ReqTopic)) : Meta :=
  (replyWith (fun _ m r => loadMetadata m r) s.host s.port s.sess (.request req)).getD emptyMeta

/-- A shape after version masking (what `wireTopic` does, on shapes). -/
def wireShape (v : Nat) (x : Shape) : Shape :=
  ((if v ≥ 12 then x.1 else some (x.1.getD "")), (if v ≥ 10 then x.2.1 else .zero), x.2.2.1, (if v ≥ 1 then x.2.2.2.1 else false),
    x.2.2.2.2.map fun p => (p.1, p.2.1, if v ≥ 7 then p.2.2 else -1))

def modelStep (s : St) (ws : List String) : St × String :=
  match ws with
  | ["cfg", h, p] => match p.toInt? with
    | some p => ({ s with host := decS h, port := p, sess := ⟨emptyMeta, []⟩ }, "ok")
    | none => (s, "bad-op")
  | "snap" :: rest => match parseMeta rest with
    | some m => ({ s with sess := advance s.sess (.setSnapshot m) }, "ok")
    | none => (s, "bad-op")
  | ["warm", how] =>
    if how = "refresh" || how = "backends" then ({ s with sess := advance s.sess .warm }, "ok") else (s, "bad-op")
  | ["resolve", id] => match decId id with
    | some id => ({ s with sess := advance s.sess (.resolve id) }, "ok")
    | none => (s, "bad-op")
  | ["meta", v, r] => match v.toNat?, parseReq r with
    | some v, some req => (s, "meta " ++ showMeta (wire v (sessReply s req)))
    | _, _ => (s, "bad-op")
  | "par" :: items =>
    let outs := items.map fun it =>
      match it.splitOn ":" with
      | [v, r] => match v.toNat?, parseReq r with
        | some v, some req =>
          -- the batch is served by `serveConcurrent`; entry i is `handleMetadata` of request i
          "meta " ++ showMeta (wire v (sessReply s req))
        | _, _ => "bad-op"
      | _ => "bad-op"
    (s, "par " ++ joinWith " || " outs)
  | ["coord", _] => (s, "coord " ++ showCoord (findCoordinator s.host s.port))
  | ["nrmeta", v, r] => match v.toNat?, parseReq r with
    | some v, some req => (s, "meta " ++ showMeta (wire v (notReadyMetadata req)))
    | _, _ => (s, "bad-op")
  | ["nrcoord", _] => (s, "coord " ++ showCoord notReadyCoordinator)
  | _ => (s, "bad-op")

def verdict (bad : List String) : String :=
  if bad.isEmpty then "ok" else "violation " ++ joinWith "," bad

/-- split a token list at the "||" separators -/
def splitBars (ws : List String) : List (List String) :=
  ws.foldr (fun w acc => if w = "||" then [] :: acc else match acc with
    | h :: t => (w :: h) :: t
    | [] => [[w]]) [[]]

/-- What the seeded class `loadViaNameCache` (by-id requests translated through the topic-name
cache) would answer with the ghost cache of the session — diagnosis / coverage only. -/
def cachedShapes (s : St) (v : Nat) (req : Option (List ReqTopic)) : List Shape :=
  ((buildResponse (loadViaNameCache s.sess.cache s.store req) s.host s.port).topics.map topicShape).map (wireShape v)

/-- `onlyProxy` + `topology_kept` of ONE reply relative to ITS OWN request and the CURRENT snapshot. -/
def metaBad (s : St) (v : Nat) (req : Option (List ReqTopic)) (impl : Meta) : List String :=
  let impl' := { impl with controller := if v ≥ 1 then impl.controller else 0 }
  (if onlyProxy impl' s.host s.port then [] else ["names-non-proxy-broker"]) ++
  (if impl.topics.map topicShape == (expectedShapes s.store req).map (wireShape v) then []
   else ["topology-changed"] ++
     (if impl.topics.map topicShape == cachedShapes s v req then ["answered-via-topic-name-cache"] else []))

/-- the request is one on which a proxy answering through the (ghost) name cache would be caught -/
def discriminates (s : St) (v : Nat) (req : Option (List ReqTopic)) : Bool :=
  cachedShapes s v req != (expectedShapes s.store req).map (wireShape v)

def monitorStep (s : St) (ws : List String) : St × String :=
  match ws with
  | ">" :: out =>
    let res : String := match s.pending, out with
      | ["meta", v, r], "meta" :: rest => match v.toNat?, parseReq r, parseMeta rest with
        | some v, some req, some impl =>
          let r := verdict (metaBad s v req impl)
          if r = "ok" && discriminates s v req then "ok cache-would-differ" else r
        | _, _, _ => "violation unparsable-reply"
      | "par" :: items, "par" :: rest =>
        let replies := splitBars rest
        if replies.length != items.length then "violation unparsable-reply" else
        verdict ((items.zip replies).foldl (fun bad (it, rep) =>
          bad ++ (match it.splitOn ":", rep with
            | [v, r], "meta" :: body => match v.toNat?, parseReq r, parseMeta body with
              | some v, some req, some impl => (metaBad s v req impl).map (· ++ "-under-concurrency")
              | _, _, _ => ["unparsable-reply"]
            | _, _ => ["unparsable-reply"])) []).eraseDups
      | ["coord", _], "coord" :: rest => match parseCoord rest with
        | some c => verdict (if c == findCoordinator s.host s.port then [] else ["coordinator-not-proxy"])
        | none => "violation unparsable-reply"
      | ["nrmeta", v, r], "meta" :: rest => match v.toNat?, parseReq r, parseMeta rest with
        | some v, some req, some impl =>
          verdict ((if namesNobody impl then [] else ["not-ready-names-broker"]) ++
            (if impl.topics.map (fun t => (t.name, t.tid, t.err)) ==
                (req.getD []).map (fun t => ((if v ≥ 12 then t.name else some (t.name.getD "")), (if v ≥ 10 then t.tid else .zero), REQUEST_TIMED_OUT)) then []
             else ["not-ready-topics-changed"]))
        | _, _, _ => "violation unparsable-reply"
      | ["nrcoord", _], "coord" :: rest => match parseCoord rest with
        | some c => verdict (if c.node == -1 && c.err == REQUEST_TIMED_OUT && c.host == "" then []
                             else ["not-ready-coordinator-named"])
        | none => "violation unparsable-reply"
      | _, _ => "violation unexpected-reply-kind"
    ({ s with pending := [] }, res)
  | _ =>
    let (s', out) := modelStep s ws
    ({ s' with pending := ws }, out)

def main (args : List String) : IO Unit :=
  if args.contains "--monitor" then runLines ({} : St) monitorStep
  else runLines ({} : St) modelStep
