import KafVerif.Props.C28
import KafVerif.Prelude.Driver
/-!
Line-protocol driver for C28 (model of the proxy's metadata path).

ops (one per line):
  cfg <host> <port>     a NEW proxy (empty store, empty topic-name cache) with this advertised address
  warm refresh|backends   refreshMetadataCache / currentBackends on that proxy (ghost cache := cacheOf snapshot)
  resolve <tid>           resolveTopicID (refresh on a cache miss)
  snap brokers=<B,..|-> ctrl=<n> cluster=<s|~> topics=<T;..|->
        B = node:host:port   T = name|tid|err|internal|P,..   P = id:err:leader:epoch:r+..:i+..:o+..
  meta <v> <req>        req = all | empty | name@tid,name@tid,..      (name ~ = nil)
  coord <v> | nrmeta <v> <req> | nrcoord <v>
  conn mode=static|store live=<n> dead=<n> cached=0|1 <step> ...
        ONE client connection through `handleConnection` (dispatch model `KafVerif.ProxyDispatch.step`);
        steps: M/<v>/<req>  MB/<v> (body cut short)  F/<v>  A  R/<key>/<v> (generic forward arm)
               MC/<v>/<req> (client hangs up without reading)
               G/<key>/<v> (group routing)  P  E (produce / fetch, raw)  X/cancel  X/cancelinstore
               X/storefail  X/storeok  X/notready  X/ready  X/kill
        output: conn <outcome> ;; ... ;; log=<key:corr,..|->   (see harness/C28/.../zz_verif_c28conn.go)
`snap` changes the snapshot of the SAME proxy (`InMemoryStore.Update`); the state between two `cfg`
lines is a `Session` of the model (current snapshot + ghost cache) advanced with `advance`, and
every reply is `replyWith` of that session, i.e. a function of the CURRENT snapshot.
Output: what a client decodes at version v, in the same text format.
`--monitor`: every op line is followed by a line `> <implementation output>`; the driver
evaluates the property predicates of KafVerif.Props.C28 (`onlyProxy`, `expectedShapes`,
`namesNobody`) on the IMPLEMENTATION's reply and prints `ok` or `violation <which>` (the op line
itself is answered with the model's output, so one run serves correspondence and monitor).
-/
open KafVerif KafVerif.ProxyMetadata
open KafVerif.ProxyDispatch (Conn Outcomes Obs)

def encS (s : String) : String := if s.isEmpty then "^" else s
def decS (s : String) : String := if s = "^" then "" else s
def encO : Option String → String
  | none => "~"
  | some s => encS s
def decO (s : String) : Option String := if s = "~" then none else some (decS s)

def decId (s : String) : Option TopicId :=
  if s.startsWith "#" then some (.ofName (decS (s.drop 1).toString))
  else match s.toNat? with
    | some 0 => some .zero
    | some n => some (.lit n)
    | none => none
def encId : TopicId → String
  | .zero => "0"
  | .lit n => toString n
  | .ofName n => "#" ++ encS n

def ints (s : String) : List Int :=
  if s = "-" then [] else (s.splitOn "+").filterMap String.toInt?
def showInts (l : List Int) : String :=
  if l.isEmpty then "-" else joinWith "+" (l.map toString)

def parsePart (s : String) : Option Part :=
  match s.splitOn ":" with
  | [i, e, l, ep, r, isr, o] => do
    pure { id := ← i.toInt?, err := ← e.toInt?, leader := ← l.toInt?, epoch := ← ep.toInt?,
           replicas := ints r, isr := ints isr, offline := ints o }
  | _ => none
def showPart (p : Part) : String :=
  s!"{p.id}:{p.err}:{p.leader}:{p.epoch}:{showInts p.replicas}:{showInts p.isr}:{showInts p.offline}"

def parseTopic (s : String) : Option Topic :=
  match s.splitOn "|" with
  | [n, tid, e, i, ps] => do
    let parts ← if ps = "-" then some [] else (ps.splitOn ",").mapM parsePart
    pure { name := decO n, tid := ← decId tid, err := ← e.toInt?, internal := i = "1", parts := parts }
  | _ => none
def showTopic (t : Topic) : String :=
  let ps := if t.parts.isEmpty then "-" else joinWith "," (t.parts.map showPart)
  s!"{encO t.name}|{encId t.tid}|{t.err}|{if t.internal then 1 else 0}|{ps}"

def parseBroker (s : String) : Option Broker :=
  match s.splitOn ":" with
  | [n, h, p] => do pure { node := ← n.toInt?, host := decS h, port := ← p.toInt? }
  | _ => none
def showBroker (b : Broker) : String := s!"{b.node}:{encS b.host}:{b.port}"

def kv (ws : List String) (k : String) : Option String :=
  (ws.find? fun w => w.startsWith (k ++ "=")).map fun w => (w.drop (k.length + 1)).toString

def parseMeta (ws : List String) : Option Meta := do
  let b ← kv ws "brokers"
  let c ← kv ws "ctrl"
  let cl ← kv ws "cluster"
  let t ← kv ws "topics"
  let brokers ← if b = "-" then some [] else (b.splitOn ",").mapM parseBroker
  let topics ← if t = "-" then some [] else (t.splitOn ";").mapM parseTopic
  pure { brokers := brokers, controller := ← c.toInt?, cluster := decO cl, topics := topics }

def showMeta (m : Meta) : String :=
  let b := if m.brokers.isEmpty then "-" else joinWith "," (m.brokers.map showBroker)
  let t := if m.topics.isEmpty then "-" else joinWith ";" (m.topics.map showTopic)
  s!"brokers={b} ctrl={m.controller} cluster={encO m.cluster} topics={t}"

def parseReq (s : String) : Option (Option (List ReqTopic)) :=
  if s = "all" then some none
  else if s = "empty" then some (some [])
  else do
    let l ← (s.splitOn ",").mapM fun r =>
      match r.splitOn "@" with
      | [n, id] => do pure ({ name := decO n, tid := ← decId id } : ReqTopic)
      | _ => none
    pure (some l)

def parseCoord (ws : List String) : Option Coord := do
  pure { err := ← (← kv ws "err").toInt?, node := ← (← kv ws "node").toInt?,
         host := decS (← kv ws "host"), port := ← (← kv ws "port").toInt? }
def showCoord (c : Coord) : String := s!"err={c.err} node={c.node} host={encS c.host} port={c.port}"

def emptyMeta : Meta := { brokers := [], controller := 0, cluster := none, topics := [] }

structure St where
  host : String := ""
  port : Int := 0
  sess : Session := ⟨emptyMeta, []⟩
  pending : List String := []

def St.store (s : St) : Meta := s.sess.snap

/-- the model's reply to one Metadata request in the current session state -/
def sessReply (s : St) (req : Option (List ReqTopic)) : Meta :=
  (replyWith (fun _ m r => loadMetadata m r) s.host s.port s.sess (.request req)).getD emptyMeta

/-- A shape after version masking (what `wireTopic` does, on shapes). -/
def wireShape (v : Nat) (x : Shape) : Shape :=
  ((if v ≥ 12 then x.1 else some (x.1.getD "")), (if v ≥ 10 then x.2.1 else .zero), x.2.2.1, (if v ≥ 1 then x.2.2.2.1 else false),
    x.2.2.2.2.map fun p => (p.1, p.2.1, if v ≥ 7 then p.2.2 else -1))


/-! ### connection-level sessions

The WORLD around `handleConnection` in the harness (scripted backends, injected failures) decides the
outcome of every callee; the dispatch model (`ProxyDispatch.step`) decides what the loop does with
it.  `connect` mirrors `connectBackendExcluding` (one attempt) + `currentBackends`. -/

structure World where
  storeMode : Bool := false
  live : Nat := 0
  cached : Bool := false
  cancelled : Bool := false
  pendingCancel : Bool := false
  storeFail : Bool := false
  ready : Bool := true
  linkAlive : Bool := false
  conn : Conn := .fresh

/-- one `store.Metadata` call through the harness wrapper -/
def World.storeCall (w : World) : World × Bool :=
  let w := if w.pendingCancel then { w with cancelled := true, pendingCancel := false } else w
  (w, !w.cancelled && !w.storeFail)

/-- `connectBackendExcluding` with `backendRetries = 1` -/
def World.connect (w : World) : World × Bool :=
  if !w.storeMode then (w, !w.cancelled && w.live > 0)
  else
    let (w, ok) := w.storeCall
    if ok then
      let w := { w with cached := true, ready := true }   -- setCachedBackends, touchHealthy, setReady(true)
      (w, !w.cancelled && w.live > 0)
    else if w.cached then (w, !w.cancelled && w.live > 0)
    else (w, false)

def World.connectN (w : World) : Nat → World × Bool
  | 0 => (w, false)
  | n + 1 => let (w, ok) := w.connect; if ok then (w, true) else w.connectN n

/-- api keys `buildNotReadyResponse` has an arm for -/
def notReadyKeys : List Nat := [3, 10, 0, 1, 2, 11, 14, 12, 13, 8, 9, 23, 15, 16, 32, 33, 37, 19, 20, 42]

def baseOutcomes (w : World) : Outcomes :=
  { ready := w.ready, handlerOk := true, noReply := false, notReadyOk := true, writeOk := true,
    connectOk := true, forwardOk := true, reconnectOk := true, forward2Ok := true }

inductive StepKind where
  | x | apiv | hangup
  | mreq (v : Nat) (req : Option (List ReqTopic))
  | metaCut (v : Nat)
  | coord
  | other
deriving Inhabited

/-- One step token: the new world, the step's kind, and for a request its api key + events. -/
def connStep (w : World) (tok : String) : Option (World × StepKind × Option (Nat × List ProxyDispatch.Event)) :=
  let serving := w.conn.isOpen && w.ready
  let fin (w : World) (kind : StepKind) (k : Nat) (o : Outcomes) :=
    let r := ProxyDispatch.step w.conn k o
    some ({ w with conn := r.1 }, kind, some (k, r.2))
  match tok.splitOn "/" with
  | ["X", "cancel"] => some ({ w with cancelled := true }, .x, none)
  | ["X", "cancelinstore"] => some ({ w with pendingCancel := true }, .x, none)
  | ["X", "storefail"] => some ({ w with storeFail := true }, .x, none)
  | ["X", "storeok"] => some ({ w with storeFail := false }, .x, none)
  | ["X", "notready"] => some ({ w with ready := false }, .x, none)
  | ["X", "ready"] => some ({ w with ready := true }, .x, none)
  | ["X", "kill"] => some ({ w with linkAlive := false }, .x, none)
  | ["A"] =>
    let r := ProxyDispatch.step w.conn 18 (baseOutcomes w)
    some ({ w with conn := r.1 }, .apiv, some (18, r.2))
  | ["M", v, r] => do
    let v ← v.toNat?
    let req ← parseReq r
    let (w, ok) := if serving then w.storeCall else (w, true)
    fin w (.mreq v req) 3 { baseOutcomes w with handlerOk := ok }
  | ["MC", v, r] => do
    -- the client hangs up without reading: the proxy's write of whatever it answers fails
    let _ ← v.toNat?
    let _ ← parseReq r
    if !w.conn.isOpen then some (w, .other, some (3, []))
    else
      let (w, ok) := if serving then w.storeCall else (w, true)
      fin w .hangup 3 { baseOutcomes w with handlerOk := ok, writeOk := false }
  | ["MB", v] => do
    let v ← v.toNat?
    fin w (.metaCut v) 3 { baseOutcomes w with handlerOk := false, notReadyOk := false }
  | ["F", _] => fin w .coord 10 (baseOutcomes w)
  | ["R", k, _] => do
    let k ← k.toNat?
    let nr := notReadyKeys.contains k
    if !serving then fin w .other k { baseOutcomes w with notReadyOk := nr }
    else if !w.conn.link then
      let (w, ok) := w.connect
      fin { w with linkAlive := ok } .other k { baseOutcomes w with notReadyOk := nr, connectOk := ok }
    else if w.linkAlive then fin w .other k { baseOutcomes w with notReadyOk := nr }
    else
      let (w, ok) := w.connect
      fin { w with linkAlive := ok } .other k { baseOutcomes w with notReadyOk := nr, forwardOk := false, reconnectOk := ok }
  | ["G", k, _] => do
    let k ← k.toNat?
    if !serving then fin w .other k (baseOutcomes w)
    else
      let (w, ok) := w.connectN (if k = 15 then 1 else 3)
      fin w .other k { baseOutcomes w with handlerOk := ok }
  | [pe] =>
    if pe = "P" || pe = "E" then
      let k := if pe = "P" then 0 else 1
      if !serving then fin w .other k (baseOutcomes w)
      else
        let (w, ok) := w.connect
        fin w .other k { baseOutcomes w with handlerOk := ok }
    else none
  | _ => none

/-- what the client prints for a step -/
def connOutcome (s : St) (kind : StepKind) (evs : Option (Nat × List ProxyDispatch.Event)) : String :=
  match kind, evs with
  | .x, _ => "x"
  | .hangup, _ => "hangup"
  | _, none => "bad-op"
  | kind, some (_, evs) =>
    match ProxyDispatch.observe evs, kind with
    | .closed, _ => "closed"
    | .nothing, _ => "closed"
    | .backendReply, _ => "relay"
    | .localReply, .apiv => "apiv"
    | .localReply, .mreq v req => "meta " ++ showMeta (wire v (sessReply s req))
    | .localReply, .coord => "coord " ++ showCoord (findCoordinator s.host s.port)
    | .notReadyReply, .mreq v req => "meta " ++ showMeta (wire v (notReadyMetadata req))
    | .notReadyReply, .coord => "coord " ++ showCoord notReadyCoordinator
    | .notReadyReply, .other => "errreply"
    | _, _ => "model-impossible"

def connModel (s : St) (ws : List String) : String :=
  match ws with
  | mode :: live :: _dead :: cached :: steps =>
    match (kv [live] "live").bind String.toNat? with
    | none => "bad-op"
    | some nl =>
      let w0 : World := { storeMode := mode = "mode=store", live := nl, cached := cached = "cached=1" }
      let rec go (w : World) (i : Nat) (toks : List String) (outs logs : List String) : Option (List String × List String) :=
        match toks with
        | [] => some (outs.reverse, logs.reverse)
        | t :: rest =>
          match connStep w t with
          | none => none
          | some (w', kind, evs) =>
            let logs := match evs with
              | some (k, e) => if ProxyDispatch.reachedBackend e then s!"{k}:{1000 + i}" :: logs else logs
              | none => logs
            go w' (i + 1) rest (connOutcome s kind evs :: outs) logs
      match go w0 0 steps [] [] with
      | none => "bad-op"
      | some (outs, logs) =>
        "conn " ++ joinWith " ;; " (outs ++ ["log=" ++ (if logs.isEmpty then "-" else joinWith "," logs)])
  | _ => "bad-op"

def modelStep (s : St) (ws : List String) : St × String :=
  match ws with
  | "conn" :: rest => (s, connModel s rest)
  | ["cfg", h, p] => match p.toInt? with
    | some p => ({ s with host := decS h, port := p, sess := ⟨emptyMeta, []⟩ }, "ok")
    | none => (s, "bad-op")
  | "snap" :: rest => match parseMeta rest with
    | some m => ({ s with sess := advance s.sess (.setSnapshot m) }, "ok")
    | none => (s, "bad-op")
  | ["warm", how] =>
    if how = "refresh" || how = "backends" then ({ s with sess := advance s.sess .warm }, "ok") else (s, "bad-op")
  | ["resolve", id] => match decId id with
    | some id => ({ s with sess := advance s.sess (.resolve id) }, "ok")
    | none => (s, "bad-op")
  | ["meta", v, r] => match v.toNat?, parseReq r with
    | some v, some req => (s, "meta " ++ showMeta (wire v (sessReply s req)))
    | _, _ => (s, "bad-op")
  | "par" :: items =>
    let outs := items.map fun it =>
      match it.splitOn ":" with
      | [v, r] => match v.toNat?, parseReq r with
        | some v, some req =>
          -- the batch is served by `serveConcurrent`; entry i is `handleMetadata` of request i
          "meta " ++ showMeta (wire v (sessReply s req))
        | _, _ => "bad-op"
      | _ => "bad-op"
    (s, "par " ++ joinWith " || " outs)
  | ["coord", _] => (s, "coord " ++ showCoord (findCoordinator s.host s.port))
  | ["nrmeta", v, r] => match v.toNat?, parseReq r with
    | some v, some req => (s, "meta " ++ showMeta (wire v (notReadyMetadata req)))
    | _, _ => (s, "bad-op")
  | ["nrcoord", _] => (s, "coord " ++ showCoord notReadyCoordinator)
  | _ => (s, "bad-op")

def verdict (bad : List String) : String :=
  if bad.isEmpty then "ok" else "violation " ++ joinWith "," bad

/-- split a token list at the "||" separators -/
def splitBars (ws : List String) : List (List String) :=
  ws.foldr (fun w acc => if w = "||" then [] :: acc else match acc with
    | h :: t => (w :: h) :: t
    | [] => [[w]]) [[]]

/-- What the seeded class `loadViaNameCache` (by-id requests translated through the topic-name
cache) would answer with the ghost cache of the session — diagnosis / coverage only. -/
def cachedShapes (s : St) (v : Nat) (req : Option (List ReqTopic)) : List Shape :=
  ((buildResponse (loadViaNameCache s.sess.cache s.store req) s.host s.port).topics.map topicShape).map (wireShape v)

/-- `onlyProxy` + `topology_kept` of ONE reply relative to ITS OWN request and the CURRENT snapshot. -/
def metaBad (s : St) (v : Nat) (req : Option (List ReqTopic)) (impl : Meta) : List String :=
  let impl' := { impl with controller := if v ≥ 1 then impl.controller else 0 }
  (if onlyProxy impl' s.host s.port then [] else ["names-non-proxy-broker"]) ++
  (if impl.topics.map topicShape == (expectedShapes s.store req).map (wireShape v) then []
   else ["topology-changed"] ++
     (if impl.topics.map topicShape == cachedShapes s v req then ["answered-via-topic-name-cache"] else []))

/-- the request is one on which a proxy answering through the (ghost) name cache would be caught -/
def discriminates (s : St) (v : Nat) (req : Option (List ReqTopic)) : Bool :=
  cachedShapes s v req != (expectedShapes s.store req).map (wireShape v)


/-- split a token list at a separator token -/
def splitAt (sep : String) (ws : List String) : List (List String) :=
  ws.foldr (fun w acc => if w = sep then [] :: acc else match acc with
    | h :: t => (w :: h) :: t
    | [] => [[w]]) [[]]

/-- Property monitor for one connection: every Metadata / FindCoordinator reply the client received
names only the proxy (or is the not-ready reply that names nobody), or the connection was closed;
the backends never received a Metadata / FindCoordinator request. -/
def connBad (s : St) (steps : List String) (outs : List (List String)) : List String :=
  let n := steps.length
  if outs.length != n + 1 then ["conn-unparsable-reply"] else
  let perStep := (steps.zip (outs.take n)).foldl (fun bad (tok, out) =>
    bad ++ (match tok.splitOn "/", out with
      | "X" :: _, _ => []
      | _, ["closed"] => []
      | "MC" :: _, ["hangup"] => []
      | ["M", v, r], "meta" :: body => match v.toNat?, parseReq r, parseMeta body with
        | some v, some req, some impl =>
          let nr := namesNobody impl && impl.topics.map (fun t => (t.name, t.tid, t.err)) ==
            (req.getD []).map (fun t => ((if v ≥ 12 then t.name else some (t.name.getD "")), (if v ≥ 10 then t.tid else .zero), REQUEST_TIMED_OUT))
          if nr then [] else (metaBad s v req impl).map ("conn-" ++ ·)
        | _, _, _ => ["conn-unparsable-reply"]
      | ["MB", v], "meta" :: body => match v.toNat?, parseMeta body with
        | some v, some impl =>
          let impl' := { impl with controller := if v ≥ 1 then impl.controller else 0 }
          if namesNobody impl || onlyProxy impl' s.host s.port then ["conn-malformed-metadata-answered"]
          else ["conn-names-non-proxy-broker", "conn-malformed-metadata-answered"]
        | _, _ => ["conn-unparsable-reply"]
      | ["F", _], "coord" :: body => match parseCoord body with
        | some c => if c == findCoordinator s.host s.port || (c.node == -1 && c.err == REQUEST_TIMED_OUT && c.host == "") then []
                    else ["conn-coordinator-not-proxy"]
        | none => ["conn-unparsable-reply"]
      | ["A"], ["apiv"] => []
      | "R" :: _, [o] => if o = "relay" || o = "errreply" then [] else ["conn-unexpected-outcome"]
      | "G" :: _, [o] => if o = "relay" || o = "errreply" then [] else ["conn-unexpected-outcome"]
      | ["P"], [o] => if o = "relay" || o = "errreply" then [] else ["conn-unexpected-outcome"]
      | ["E"], [o] => if o = "relay" || o = "errreply" then [] else ["conn-unexpected-outcome"]
      | _, _ => ["conn-unexpected-outcome"])) []
  let logBad := match outs.getLast? with
    | some [l] =>
      if !l.startsWith "log=" then ["conn-unparsable-reply"] else
      let body := (l.drop 4).toString
      if body = "-" then [] else
      if (body.splitOn ",").any (fun e => e.startsWith "3:" || e.startsWith "10:") then ["conn-metadata-sent-to-backend"] else []
    | _ => ["conn-unparsable-reply"]
  (perStep ++ logBad).eraseDups

def monitorStep (s : St) (ws : List String) : St × String :=
  match ws with
  | ">" :: out =>
    let res : String := match s.pending, out with
      | ["meta", v, r], "meta" :: rest => match v.toNat?, parseReq r, parseMeta rest with
        | some v, some req, some impl =>
          let r := verdict (metaBad s v req impl)
          if r = "ok" && discriminates s v req then "ok cache-would-differ" else r
        | _, _, _ => "violation unparsable-reply"
      | "conn" :: _ :: _ :: _ :: _ :: steps, "conn" :: rest => verdict (connBad s steps (splitAt ";;" rest))
      | "par" :: items, "par" :: rest =>
        let replies := splitBars rest
        if replies.length != items.length then "violation unparsable-reply" else
        verdict ((items.zip replies).foldl (fun bad (it, rep) =>
          bad ++ (match it.splitOn ":", rep with
            | [v, r], "meta" :: body => match v.toNat?, parseReq r, parseMeta body with
              | some v, some req, some impl => (metaBad s v req impl).map (· ++ "-under-concurrency")
              | _, _, _ => ["unparsable-reply"]
            | _, _ => ["unparsable-reply"])) []).eraseDups
      | ["coord", _], "coord" :: rest => match parseCoord rest with
        | some c => verdict (if c == findCoordinator s.host s.port then [] else ["coordinator-not-proxy"])
        | none => "violation unparsable-reply"
      | ["nrmeta", v, r], "meta" :: rest => match v.toNat?, parseReq r, parseMeta rest with
        | some v, some req, some impl =>
          verdict ((if namesNobody impl then [] else ["not-ready-names-broker"]) ++
            (if impl.topics.map (fun t => (t.name, t.tid, t.err)) ==
                (req.getD []).map (fun t => ((if v ≥ 12 then t.name else some (t.name.getD "")), (if v ≥ 10 then t.tid else .zero), REQUEST_TIMED_OUT)) then []
             else ["not-ready-topics-changed"]))
        | _, _, _ => "violation unparsable-reply"
      | ["nrcoord", _], "coord" :: rest => match parseCoord rest with
        | some c => verdict (if c.node == -1 && c.err == REQUEST_TIMED_OUT && c.host == "" then []
                             else ["not-ready-coordinator-named"])
        | none => "violation unparsable-reply"
      | _, _ => "violation unexpected-reply-kind"
    ({ s with pending := [] }, res)
  | _ =>
    let (s', out) := modelStep s ws
    ({ s' with pending := ws }, out)

def main (args : List String) : IO Unit :=
  if args.contains "--monitor" then runLines ({} : St) monitorStep
  else runLines ({} : St) modelStep
