import KafVerif.Model.OperatorMutate
import KafVerif.Gen.C42Mutate
import KafVerif.Prelude.Driver
open KafVerif KafVerif.Operator

/-- `covers <closure index> <segment ids…>`: does the translated closure write this field (or a field
above / below it)?  Used for the write-coverage tie: the harness reports every field the real
reconcile set, the model says whether the IR predicts a write there. -/
def stepLine (u : Unit) (ws : List String) : Unit × String :=
  match ws with
  | "covers" :: idx :: segs =>
    match idx.toNat? with
    | some i =>
      match KafVerif.Gen.C42.closures[i]? with
      | some c =>
        let q := segs.filterMap (·.toNat?)
        (u, if q.length == segs.length && covers c.prog q then "covered" else "uncovered")
      | none => (u, "no-such-closure")
    | none => (u, "bad-op")
  | ["fragment", idx] =>
    match idx.toNat? with
    | some i => match KafVerif.Gen.C42.closures[i]? with
      | some c => (u, s!"fragment {inFragment c.prog} writes={(writes c.prog).length} impure={c.impure}")
      | none => (u, "no-such-closure")
    | none => (u, "bad-op")
  | _ => (u, "bad-op")

def main : IO Unit := runLines () stepLine
