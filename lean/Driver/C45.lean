import KafVerif.Model.Idoc
import KafVerif.Prelude.Driver
open KafVerif KafVerif.GoStr KafVerif.Idoc

/-! Line-protocol driver for C45: `doc <items> <partners> <statuses> <dates> <tok;tok;…>`
(lists: comma separated hex, `_` = empty list; tokens: `S<name>[:k=v,…]` start, `s…` start written
self-closing, `T<hex>` text, `C<hex>` CDATA text, `K<hex>` comment, `P` prolog, `E` end).
`call <mode> <items> … <toks>` is `doc` with a prescribed way of handing the configuration over
(fresh / reuse / inplace / same buffers — caller-side aliasing only); the model is a pure function
of the call's own configuration VALUE and document (`Idoc.callStep`: the package has no state), so
the mode is ignored here and any cross-call state in the implementation shows up as a line diff. -/

def parseList (s : String) : Option (List Str) :=
  if s == "_" then some [] else (s.splitOn ",").mapM runesOfHex

def parseAttrs (s : String) : Option (List (Str × Str)) :=
  (s.splitOn ",").mapM fun kv =>
    match kv.splitOn "=" with
    | [k, v] => match runesOfHex k, runesOfHex v with
      | some k, some v => some (k, v)
      | _, _ => none
    | _ => none

def parseTok (t : String) : Option (List Tok) :=
  match t.toList with
  | 'E' :: [] => some [Tok.stop]
  | 'P' :: [] => some []
  | 'K' :: _ => some []
  | 'T' :: h => (runesOfHex (String.ofList h)).map fun s => [Tok.text s]
  | 'C' :: h => (runesOfHex (String.ofList h)).map fun s => [Tok.text s]
  | c :: rest =>
    if c == 'S' || c == 's' then
      match (String.ofList rest).splitOn ":" with
      | [n] => (runesOfHex n).map fun n => [Tok.start n []]
      | [n, as] => match runesOfHex n, parseAttrs as with
        | some n, some as => some [Tok.start n as]
        | _, _ => none
      | _ => none
    else none
  | [] => none

def sortStr (l : List String) : List String := l.mergeSort fun a b => !(b < a)

def showMap (m : SMap) : String :=
  joinWith "," (sortStr (m.map fun e => hexOfRunes e.1 ++ "=" ++ hexOfRunes e.2))

def showSeg (s : Seg) : String :=
  hexOfRunes s.name ++ "~" ++ hexOfRunes s.path ++ "~" ++ showMap s.attrs ++ "~" ++ hexOfRunes s.value ++ "~" ++
    showMap (s.fields.getD [])

def showSegs (l : List Seg) : String := joinWith "|" (l.map showSeg)

def showRes (r : Res) : String :=
  let (root, ha) := match r.header with | some (n, a) => (hexOfRunes n, showMap a) | none => ("-", "")
  s!"ok root={root} hattrs={ha} n={r.segments.length} segs={showSegs r.segments} items={showSegs r.items} partners={showSegs r.partners} statuses={showSegs r.statuses} dates={showSegs r.dates}"

def docLine (old : Bool) (i p s d ts : String) : String :=
  match parseList i, parseList p, parseList s, parseList d, ((ts.splitOn ";").mapM parseTok) with
  | some i, some p, some s, some d, some tl =>
    let cfg : Cfg := { items := i, partners := p, statuses := s, dates := d }
    let toks := tl.flatten
    showRes (if old then explodeOld cfg toks else (callStep () (cfg, toks)).2)
  | _, _, _, _, _ => "bad-op"

def stepLine (old : Bool) (ws : List String) : Bool × String :=
  match ws with
  | ["mode", m] => (m == "old", "ok")
  | ["doc", i, p, s, d, ts] => (old, docLine old i p s d ts)
  | ["call", m, i, p, s, d, ts] =>
    if m == "fresh" || m == "reuse" || m == "inplace" || m == "same" then (old, docLine old i p s d ts) else (old, "bad-op")
  | "raw" :: _ => (old, "skip")
  | _ => (old, "bad-op")

def main : IO Unit := runLines false stepLine
