import KafVerif.Model.ProxyProto
import KafVerif.Model.ProxyConns
import KafVerif.Prelude.Driver
open KafVerif KafVerif.ProxyProto

/-- Go prints a v4-mapped IPv6 address in dotted form; the harness canonicalises dotted text to 4 bytes -/
def canonIP (b : Bytes) : Bytes :=
  if b.length = 16 ∧ b.take 12 = [0,0,0,0,0,0,0,0,0,0,0xff,0xff] then b.drop 12 else b

def showRes (s : Bytes) : String :=
  match parse s with
  | .panic => "panic"
  | .err => "err"
  | .ok (none, rest) => s!"ok none rest={toHex rest}"
  | .ok (some i, rest) =>
    if i.isLocal then s!"ok local rest={toHex rest}"
    else if s.head? == some 0x50 then
      s!"ok v1 src={toHex i.srcIP} dst={toHex i.dstIP} sp={i.srcPort} dp={i.dstPort} sa={toHex i.srcAddr} da={toHex i.dstAddr} rest={toHex rest}"
    else
      s!"ok v2 src={toHex (canonIP i.srcIP)} dst={toHex (canonIP i.dstIP)} sp={i.srcPort} dp={i.dstPort} addr=ok rest={toHex rest}"

/-- `econn`: as `conn`, but a rejection also reports what the wrapped connection still delivers (`errRest`) -/
def showResE (s : Bytes) : String :=
  match parse s with
  | .err => s!"err rest={toHex (errRest s)}"
  | _ => showRes s

/-! ### connection lifecycles (`Model/ProxyConns.lean`): `sess` = one goroutine drives several connections, `par` = rounds of
concurrently running connections.  Event tokens: `a<i>=<hex>` accept connection i with that stream, `r<i>=<n>` io.ReadFull of
n bytes, `d<i>` read to EOF, `c<i>` Close (may be repeated). -/

/-- header part of `showRes`, blanks replaced (one token per event in the session line) -/
def showHdr (s : Bytes) : String :=
  (((showRes s).splitOn " rest=").headD "").replace " " ","

def drainN : Nat := 2 ^ 40

def parseEv (tok : String) : Option (Ev × Bytes) :=
  match tok.toList with
  | 'a' :: rest =>
    match (String.ofList rest).splitOn "=" with
    | [i, hx] => do let i ← i.toNat?; let b ← fromHex hx; pure (.accept i b, b)
    | _ => none
  | 'r' :: rest =>
    match (String.ofList rest).splitOn "=" with
    | [i, n] => do let i ← i.toNat?; let n ← n.toNat?; pure (.read i n, [])
    | _ => none
  | 'd' :: rest => do let i ← (String.ofList rest).toNat?; pure (.read i drainN, [])
  | 'c' :: rest => do let i ← (String.ofList rest).toNat?; pure (.close i, [])
  | _ => none

def showOut (stream : Bytes) : Nat × Out → String
  | (i, .accepted _) => s!"a{i}:{showHdr stream}"
  | (i, .data b) => s!"r{i}:{toHex b}"
  | (i, .closed) => s!"c{i}"
  | (i, .bad) => s!"bad{i}"

def showSess (toks : List String) : String :=
  match toks.mapM parseEv with
  | none => "bad-op"
  | some evs =>
    let outs := run noConns (evs.map (·.1))
    joinWith " " ((evs.zip outs).map fun (e, o) => showOut e.2 o)

/-- one `par` round: every connection is accepted, read to EOF and closed k times, all at the same time; the model result
of a connection is the one of its own session (`conn_independent`) -/
def showParConn (tok : String) : Option String :=
  match tok.splitOn ":" with
  | [k, hx] => do
    let k ← k.toNat?
    let b ← fromHex hx
    let evs := Ev.accept 0 b :: Ev.read 0 drainN :: List.replicate k (Ev.close 0)
    let outs := run noConns evs
    pure s!"{showHdr b},rest={toHex (delivered 0 outs)}"
  | _ => none

def showPar (toks : List String) : String :=
  match toks.mapM (fun t => if t = "/" then some "/" else showParConn t) with
  | none => "bad-op"
  | some rs => joinWith " " rs

def stepLine (u : Unit) (ws : List String) : Unit × String :=
  match ws with
  | ["econn", _, hx] => match fromHex hx with
    | some b => (u, showResE b)
    | none => (u, "bad-op")
  | ["conn", hx] => match fromHex hx with
    | some b => (u, showRes b)
    | none => (u, "bad-op")
  | ["conn", _, hx] => match fromHex hx with      -- second word = chunking seed (implementation side only)
    | some b => (u, showRes b)
    | none => (u, "bad-op")
  | "sess" :: _ :: toks => (u, showSess toks)
  | "par" :: _ :: toks => (u, showPar toks)
  | _ => (u, "bad-op")

def main : IO Unit := runLines () stepLine
