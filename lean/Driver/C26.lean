import KafVerif.Model.ProxyProto
import KafVerif.Prelude.Driver
open KafVerif KafVerif.ProxyProto

/-- Go prints a v4-mapped IPv6 address in dotted form; the harness canonicalises dotted text to 4 bytes -/
def canonIP (b : Bytes) : Bytes :=
  if b.length = 16 ∧ b.take 12 = [0,0,0,0,0,0,0,0,0,0,0xff,0xff] then b.drop 12 else b

def showRes (s : Bytes) : String :=
  match parse s with
  | .panic => "panic"
  | .err => "err"
  | .ok (none, rest) => s!"ok none rest={toHex rest}"
  | .ok (some i, rest) =>
    if i.isLocal then s!"ok local rest={toHex rest}"
    else if s.head? == some 0x50 then
      s!"ok v1 src={toHex i.srcIP} dst={toHex i.dstIP} sp={i.srcPort} dp={i.dstPort} sa={toHex i.srcAddr} da={toHex i.dstAddr} rest={toHex rest}"
    else
      s!"ok v2 src={toHex (canonIP i.srcIP)} dst={toHex (canonIP i.dstIP)} sp={i.srcPort} dp={i.dstPort} addr=ok rest={toHex rest}"

/-- `econn`: as `conn`, but a rejection also reports what the wrapped connection still delivers (`errRest`) -/
def showResE (s : Bytes) : String :=
  match parse s with
  | .err => s!"err rest={toHex (errRest s)}"
  | _ => showRes s

def stepLine (u : Unit) (ws : List String) : Unit × String :=
  match ws with
  | ["econn", _, hx] => match fromHex hx with
    | some b => (u, showResE b)
    | none => (u, "bad-op")
  | ["conn", hx] => match fromHex hx with
    | some b => (u, showRes b)
    | none => (u, "bad-op")
  | ["conn", _, hx] => match fromHex hx with      -- second word = chunking seed (implementation side only)
    | some b => (u, showRes b)
    | none => (u, "bad-op")
  | _ => (u, "bad-op")

def main : IO Unit := runLines () stepLine
