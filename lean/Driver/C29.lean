import KafVerif.Model.LfsEnvelope
import KafVerif.Prelude.Driver
open KafVerif KafVerif.LfsEnvelope

/-! C29 driver.  Ops:
`is <hex>`                                   -> `is go=<b> py=<b> js=<b>`
`enc <ver> <size> <bucket> <key> <sha> <cksum> <alg> <ctype> <created> <proxy> [<k> <v>]*`
                                             -> `enc <hex>|err` (all strings hex, `-` = empty) -/

def pairs : List String → Option (List (Bytes × Bytes))
  | [] => some []
  | [_] => none
  | k :: v :: rest => do
    let k ← fromHex k
    let v ← fromHex v
    let r ← pairs rest
    pure ((k, v) :: r)

def stepLine (_ : Unit) (ws : List String) : Unit × String :=
  match ws with
  | ["is", hx] => match fromHex hx with
    | some v => ((), s!"is go={isEnvGo v} py={isEnvPy v} js={isEnvJs v}")
    | none => ((), "bad-op")
  | "enc" :: ver :: size :: bucket :: key :: sha :: ck :: alg :: ct :: created :: proxy :: rest =>
    match ver.toInt?, size.toInt?, fromHex bucket, fromHex key, fromHex sha, fromHex ck, fromHex alg,
          fromHex ct, fromHex created, fromHex proxy, pairs rest with
    | some ver, some size, some bucket, some key, some sha, some ck, some alg, some ct, some created,
      some proxy, some oh =>
      let e : Envelope := Envelope.mk ver bucket key size sha ck alg ct oh created proxy
      match encode e with
      | some out => ((), s!"enc {toHex out} stable=true")
      | none => ((), "enc err")
    | _, _, _, _, _, _, _, _, _, _, _ => ((), "bad-op")
  | ["par", _] => ((), "par ok=true")   -- purity: values never change, whatever the interleaving
  | _ => ((), "bad-op")

def main : IO Unit := runLines () stepLine
