import KafVerif.Model.PLogProto
open KafVerif KafVerif.PLogProto

def main : IO Unit := runLines World.init stepLine
