import KafVerif.Props.C27
import KafVerif.Prelude.Driver
/-!
Line-protocol driver for C27 (model of the proxy's produce / fetch fan-out).

  setup route=<t:p=b,..|-> known=<b,..|-> unres=<t,..|-> down=<b,..|all|->
  P|F req=<t:p+p;t:p..> code=<t:p:k=c,..|-> fault=<t:p:k=f,..|->      (other k=v words are ignored)
  A req=<..>                                                          (acks=0 produce: no reply)
  C <P|F ..> || <P|F ..>   two clients at the same time (client 0: topics 0-1, client 1: topics 2-3)

A request line runs `forward` from the current routing table (which persists: Invalidate) with
the scripted backends:
  code t:p:k=c   the k-th time a backend receives (t,p) it answers error code c (default 0)
  fault t:p:k=f  a sub-request whose FIRST partition is (t,p), received for the k-th time:
                 close | garbage | short  → no decodable reply (transport error)
                 omit | dup | extra       → decodable reply of the wrong shape (outside the hypothesis)
  down=all       no backend can be reached (connect error for every sub-request)
Output: reply=<t:p=code/mark,..> recv=<who|t:p+p;t:p,..> route=<t:p=b,..>   (unsorted; the check sorts)
  who = b<i> when the receiving backend is determined (every group of that attempt has a
  reachable owner), `*` otherwise (round-robin / fallback picks depend on Go's map order).
`--monitor`: every request line is followed by `> <implementation output>`; the driver rebuilds the
ghost log from the backends' receive log (attempt = how often the first partition had been received
before; outcome = what the scripted backend did) and evaluates the executable predicates of
KafVerif.Props.C27 (`specOneEntry`, `specSuccessSound`, `specResend`, `specBound`, `specSends` — the
ones `model_meets_spec` is proved about) on the IMPLEMENTATION's reply and log.
-/
open KafVerif KafVerif.ProxyFanout

def kvC (ws : List String) (k : String) : String :=
  ((ws.find? fun w => w.startsWith (k ++ "=")).map fun w => (w.drop (k.length + 1)).toString).getD "-"

def listOf (s : String) (sep : String) : List String := if s = "-" || s = "" then [] else s.splitOn sep

def parseTP (s : String) : Option (Nat × Nat) :=
  match s.splitOn ":" with
  | [t, p] => do pure (← t.toNat?, ← p.toNat?)
  | _ => none

def parseReq (s : String) : SubReq :=
  (listOf s ";").filterMap fun e =>
    match e.splitOn ":" with
    | [t, ps] => do pure (← t.toNat?, (listOf ps "+").filterMap String.toNat?)
    | _ => none

/-- `t:p:k=v` -/
def parseScript (s : String) : List ((Nat × Nat × Nat) × String) :=
  (listOf s ",").filterMap fun e =>
    match e.splitOn "=" with
    | [lhs, v] => match lhs.splitOn ":" with
      | [t, p, k] => do pure ((← t.toNat?, ← p.toNat?, ← k.toNat?), v)
      | _ => none
    | _ => none

structure Cfg where
  route : Route := { owners := [], known := [], unres := [] }
  down : List Nat := []
  allDown : Bool := false

def markOf (t p k : Nat) : Int := Int.ofNat (1000000 * (k + 1) + 1000 * t + p)

def mkOracle (allDown : Bool) (codes faults : List ((Nat × Nat × Nat) × String)) : Oracle :=
  fun k _ sub =>
    if allDown then .connectErr else
    match tpsOf sub with
    | [] => .reply []
    | f :: _ =>
      let fault := (faults.lookup (f.1, f.2, k)).getD "none"
      if fault == "close" || fault == "garbage" || fault == "short" then .transportErr else
      let full : Reply := sub.map fun e => (e.1, e.2.map fun p =>
        { part := p, code := ((codes.lookup (e.1, p, k)).bind String.toInt?).getD 0, mark := markOf e.1 p k })
      if fault == "omit" then
        .reply (match full with | (t, _ :: ps) :: rest => (t, ps) :: rest | r => r)
      else if fault == "dup" then
        .reply (match full with | (t, p :: ps) :: rest => (t, p :: p :: ps) :: rest | r => r)
      else if fault == "extra" then
        .reply (full ++ [(9, [{ part := 9, code := 0, mark := markOf 9 9 k }])])
      else .reply full

def showSub (s : SubReq) : String :=
  joinWith ";" (s.map fun e => s!"{e.1}:{joinWith "+" (e.2.map toString)}")

def showReply (r : Reply) : String :=
  let es := (flat r).map fun x => s!"{x.1}:{x.2.part}={x.2.code}/{x.2.mark}"
  if es.isEmpty then "-" else joinWith "," es

def showRoute (rt : Route) : String :=
  let es := rt.owners.map fun e => s!"{e.1.1}:{e.1.2}={e.2}"
  if es.isEmpty then "-" else joinWith "," es

def showRecv (down : List Nat) (log : List LogEntry) : String :=
  let sent := log.filter (·.sent)
  let es := sent.map fun e =>
    let same := log.filter (·.attempt == e.attempt)
    let det := same.all fun x => match x.key with | some b => !down.contains b | none => false
    let who := match det, e.key with | true, some b => s!"b{b}" | _, _ => "*"
    s!"{who}|{showSub e.sub}"
  if es.isEmpty then "-" else joinWith "," es

def stepLine (c : Cfg) (ws : List String) : Cfg × String :=
  match ws with
  | "setup" :: rest =>
    let owners := (listOf (kvC rest "route") ",").filterMap fun e =>
      match e.splitOn "=" with
      | [tp, b] => do pure (← parseTP tp, ← b.toNat?)
      | _ => none
    let d := kvC rest "down"
    ({ route := { owners := owners, known := (listOf (kvC rest "known") ",").filterMap String.toNat?,
                  unres := (listOf (kvC rest "unres") ",").filterMap String.toNat? },
       down := if d = "all" then [] else (listOf d ",").filterMap String.toNat?,
       allDown := d = "all" }, "ok")
  | "C" :: rest =>
    -- two concurrent clients on disjoint topics: any interleaving equals running them one after
    -- the other on the shared routing table (their Invalidate calls touch disjoint keys)
    let a := rest.takeWhile (· ≠ "||")
    let b := (rest.dropWhile (· ≠ "||")).drop 1
    let run (rt : Route) (ws : List String) : Result :=
      let oracle := mkOracle c.allDown (parseScript (kvC ws "code")) (parseScript (kvC ws "fault"))
      forward (ws.head? = some "F") oracle (fun _ g => g) rt (parseReq (kvC ws "req"))
    let ra := run c.route a
    let rb := run ra.route b
    ({ c with route := rb.route },
      s!"reply={showReply ra.reply} recv={showRecv c.down ra.log} route={showRoute rb.route} || " ++
      s!"reply={showReply rb.reply} recv={showRecv c.down rb.log} route={showRoute rb.route}")
  | kind :: rest =>
    if kind = "P" || kind = "F" then
      let req := parseReq (kvC rest "req")
      let oracle := mkOracle c.allDown (parseScript (kvC rest "code")) (parseScript (kvC rest "fault"))
      let res := forward (kind = "F") oracle (fun _ g => g) c.route req
      ({ c with route := res.route },
        s!"reply={showReply res.reply} recv={showRecv c.down res.log} route={showRoute res.route}")
    else if kind = "A" then
      let req := parseReq (kvC rest "req")
      let gs := if c.allDown then [] else fireAndForget c.route req
      let det := gs.all fun g => match g.1 with | some b => !c.down.contains b | none => false
      let es := gs.map fun g => (match det, g.1 with | true, some b => s!"b{b}" | _, _ => "*") ++ "|" ++ showSub g.2
      (c, s!"reply=none recv={if es.isEmpty then "-" else joinWith "," es} route={showRoute c.route}")
    else (c, "bad-op")
  | _ => (c, "bad-op")

def parseReplyLine (s : String) : Option Reply :=
  (listOf s ",").foldlM (fun (m : Reply) e =>
    match e.splitOn "=" with
    | [tp, rest] => match rest.splitOn "/" with
      | [c, mk] => do
        let tp ← parseTP tp
        pure (addPart m tp.1 { part := tp.2, code := ← c.toInt?, mark := ← mk.toInt? })
      | _ => none
    | _ => none) []

def parseRecvLine (s : String) : List SubReq :=
  (listOf s ",").filterMap fun e =>
    match e.splitOn "|" with
    | [_, sub] => some (parseReq sub)
    | _ => none

/-- the ghost log the implementation's backends witnessed -/
def rebuildLog (oracle : Oracle) (subs : List SubReq) : List LogEntry :=
  (subs.foldl (fun (acc : List ((Nat × Nat) × Nat) × List LogEntry) sub =>
    let tps := tpsOf sub
    let k := match tps with | f :: _ => (acc.1.lookup f).getD 0 | [] => 0
    let counts := tps.foldl (fun c tp => (tp, (c.lookup tp).getD 0 + 1) :: c.filter (·.1 != tp)) acc.1
    (counts, acc.2 ++ [{ attempt := k, key := none, sub := sub, out := oracle k none sub }])) ([], [])).2

structure MonSt where
  cfg : Cfg := {}
  pending : List String := []

def monitorStep (s : MonSt) (ws : List String) : MonSt × String :=
  match ws with
  | ">" :: out =>
    let res : String := match s.pending with
      | kind :: rest =>
        let req := parseReq (kvC rest "req")
        let subs := parseRecvLine (kvC out "recv")
        if kind = "A" then
          let want := if s.cfg.allDown then [] else tpsOf req
          if kvC out "reply" = "none" && (subs.flatMap tpsOf).isPerm want then "ok"
          else "violation acks0-not-written-exactly-once"
        else match parseReplyLine (kvC out "reply") with
          | none => "violation proxy-gave-no-reply"
          | some reply =>
            let oracle := mkOracle false (parseScript (kvC rest "code")) (parseScript (kvC rest "fault"))
            let log := rebuildLog oracle subs
            let fetch := kind = "F"
            let hyp := hypDistinct req && hypShape log
            let bad :=
              (if hyp && !specOneEntry req reply then ["reply-entries-not-one-per-partition"] else []) ++
              (if !specSuccessSound log reply then ["success-without-backend-success"] else []) ++
              (if !specResend fetch log then ["resend-without-not-leader"] else []) ++
              (if !specBound log then ["more-than-three-sends"] else []) ++
              (if !fetch && hypDistinct req && !specSends req log then ["more-sends-than-not-leader-answers"] else [])
            if bad.isEmpty then (if hyp then "ok" else "ok hypothesis-not-met") else "violation " ++ joinWith "," bad
      | [] => "violation unexpected-reply-line"
    ({ s with pending := [] }, res)
  | _ =>
    let (c, _) := stepLine s.cfg ws
    -- the routing table the NEXT request starts from is the model's; only `allDown` is used here
    ({ cfg := c, pending := ws }, "-")

def main (args : List String) : IO Unit :=
  if args.contains "--monitor" then runLines ({} : MonSt) monitorStep
  else runLines ({} : Cfg) stepLine
