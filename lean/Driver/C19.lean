import KafVerif.Model.ProduceGate
import KafVerif.Prelude.Driver
open KafVerif KafVerif.Lease KafVerif.ProduceGate

/-! Line-protocol driver for the produce gate (C19): lease model (broker 0 = the handler's broker A,
broker 1 = competitor B) + the per-partition decision list.  Resources 0..5 =
t0/0 t0/1 t0/2 t1/0 t1/1 ghost/0. -/

structure D where
  l : Lease.State
  aclDeny1 : Bool
  etcdUp : Bool
  s3 : S3
  txnFail : Bool
  pending : Option String

def NR : Nat := 6

def D.fresh : D := { l := Lease.init, aclDeny1 := false, etcdUp := true, s3 := .healthy, txnFail := false, pending := none }

def obs (d : D) : String :=
  let own := ((List.range NR).filter fun r => owns d.l 0 r).map toString
  let kv := (List.range NR).map fun r =>
    match d.l.kv r with
    | some k => s!"{r}:{if k.owner = 0 then "A" else "B"}"
    | none => s!"{r}:-"
  s!"own={joinWith "," own} kv={joinWith "," kv}"

/-- run one Acquire of broker `b` on `r` to completion (sequentially); `fail` makes the lease txn error out -/
def runAcquire (l : Lease.State) (b r : Nat) (fail : Bool) : Lease.State × Option Res :=
  let (l1, r1) := Lease.step .byRev l (.acquire b r)
  match r1 with
  | some x => (l1, some x)
  | none =>
    let rec go (fuel : Nat) (l : Lease.State) : Lease.State × Option Res :=
      match fuel with
      | 0 => (l, none)
      | fuel + 1 =>
        match l.acq b r with
        | none => (l, none)
        | some pc =>
          let isTxn := match pc with | .txn _ => true | .re _ => true | _ => false
          if fail && isTxn then ((Lease.step .byRev l (.abort b r)).1, some .err)
          else
            let (l', res) := Lease.step .byRev l (.step b r)
            match res with
            | some x => (l', some x)
            | none => go fuel l'
    go 12 l1

def resStr : Option Res → String
  | some .ok => "ok"
  | some .notOwner => "notowner"
  | some .shuttingDown => "shutdown"
  | some .err => "err"
  | none => "-"

def parsePart (w : String) : Option (Nat × Bool) :=
  match w.splitOn ":" with
  | [r, k] => r.toNat?.map fun r => (r, k == "v")
  | _ => none

/-- the handler's produce path for the listed partitions; returns the result text -/
def produce (d : D) (acks0 : Bool) (parts : List (Nat × Bool)) : D × String :=
  -- acquirePartitionLeases: for every partition of the request, before any other check
  let (l, leases) := parts.foldl (fun (acc : Lease.State × List (Nat × LeaseRes)) p =>
      let (l, out) := acc
      if owns l 0 p.1 then (l, out ++ [(p.1, LeaseRes.nil)])
      else
        let (l', res) := runAcquire l 0 p.1 d.txnFail
        (l', out ++ [(p.1, ofRes res)])) (d.l, [])
  let outs := parts.map fun p =>
    let lease := (leases.find? fun x => x.1 == p.1).map (·.2) |>.getD .other
    let i : PartIn := { aclOk := !(d.aclDeny1 && (p.1 == 3 || p.1 == 4)), etcdUp := d.etcdUp, lease := lease, s3 := d.s3,
                        logOk := p.1 != 5, batchOk := p.2, appendOk := true, flushOk := true, acks0 := acks0, flushOnAck := true }
    (p.1, producePart i)
  let codes := if acks0 then "none" else joinWith "," (outs.map fun o => s!"{o.1}={o.2.code}")
  let writes := joinWith "," (outs.map fun o => s!"{o.1}={if o.2.flushed then 1 else 0}")
  ({ d with l := l }, s!"codes={codes} writes={writes}")

def expireAll (l : Lease.State) : Lease.State :=
  (List.range l.nextLease).foldl (fun l x =>
    if l.live x && enabledB 2 l (.expire x) then (Lease.step .byRev l (.expire x)).1 else l) l

def stepLine (d : D) (ws : List String) : D × String :=
  match ws with
  | ["reset"] => (D.fresh, "reset " ++ obs D.fresh)
  | ["acl", x] => let d' := { d with aclDeny1 := x == "deny1" }; (d', "- " ++ obs d')
  | ["etcd", x] => let d' := { d with etcdUp := x == "up" }; (d', "- " ++ obs d')
  | ["s3", x] =>
    let d' := { d with s3 := if x == "degraded" then .degraded else if x == "unavailable" then .unavailable else .healthy }
    (d', "- " ++ obs d')
  | ["txnfail", x] => let d' := { d with txnFail := x == "on" }; (d', "- " ++ obs d')
  | ["b", "acquire", r] => match r.toNat? with
    | some r => let (l, res) := runAcquire d.l 1 r false; let d' := { d with l := l }; (d', resStr res ++ " " ++ obs d')
    | none => (d, "bad-op")
  | ["b", "release", r] => match r.toNat? with
    | some r =>
      let l1 := (Lease.step .byRev d.l (.release 1 r)).1
      let l2 := if l1.dels.length > 0 then (Lease.step .byRev l1 (.del (l1.dels.length - 1))).1 else l1
      let d' := { d with l := l2 }; (d', "- " ++ obs d')
    | none => (d, "bad-op")
  | ["a", "lost"] => let d' := { d with l := (Lease.step .byRev d.l (.sessionLost 0)).1 }; (d', "- " ++ obs d')
  | ["a", "expire"] => let d' := { d with l := expireAll d.l }; (d', "- " ++ obs d')
  | ["a", "releaseall"] =>
    let l1 := (Lease.step .byRev d.l (.releaseAll 0)).1
    let l2 := if l1.revokes.length > 0 then (Lease.step .byRev l1 (.revoke (l1.revokes.length - 1))).1 else l1
    let d' := { d with l := l2 }; (d', "- " ++ obs d')
  | "produce" :: acks :: parts =>
    let (d', txt) := produce d (acks == "0") (parts.filterMap parsePart)
    (d', txt ++ " " ++ obs d')
  | ["gproduce", acks, part] =>
    let (d', txt) := produce d (acks == "0") ([part].filterMap parsePart)
    ({ d' with pending := some txt }, "parked " ++ obs d')
  | ["gresume"] =>
    match d.pending with
    | some txt => let d' := { d with pending := none }; (d', txt ++ " " ++ obs d')
    | none => (d, "bad-op")
  | _ => (d, "bad-op")

def main : IO Unit := runLines D.fresh stepLine
