import KafVerif.Model.ProduceGate
import KafVerif.Prelude.Driver
open KafVerif KafVerif.Lease KafVerif.ProduceGate

/-! Line-protocol driver for the produce gate (C19): lease model (broker 0 = the handler's broker A,
broker 1 = competitor B) + the per-partition decision list.  Resources 0..5 =
t0/0 t0/1 t0/2 t1/0 t1/1 ghost/0. -/

structure D where
  l : Lease.State
  aclDeny1 : Bool
  etcdUp : Bool
  s3 : S3
  txnFail : Bool
  pending : Option String

def NR : Nat := 38   -- 0..5 as above, 6..37 = wide/0..31

def D.fresh : D := { l := Lease.init, aclDeny1 := false, etcdUp := true, s3 := .healthy, txnFail := false, pending := none }

def obs (d : D) : String :=
  let own := ((List.range NR).filter fun r => owns d.l 0 r).map toString
  let kv := (List.range NR).filterMap fun r =>
    match d.l.kv r with
    | some k => some s!"{r}:{if k.owner = 0 then "A" else "B"}"
    | none => none
  let bown := ((List.range NR).filter fun r => owns d.l 1 r).map toString
  s!"own={joinWith "," own} bown={joinWith "," bown} kv={joinWith "," kv}"

def resStr : Option Res → String
  | some .ok => "ok"
  | some .notOwner => "notowner"
  | some .shuttingDown => "shutdown"
  | some .err => "err"
  | none => "-"

def parsePart (w : String) : Option (Nat × Bool) :=
  match w.splitOn ":" with
  | [r, k] => r.toNat?.map fun r => (r, k == "v")
  | _ => none

def envOf (d : D) (acks0 : Bool) (parts : List (Nat × Bool)) (p : Nat) : PartIn :=
  { aclOk := !(d.aclDeny1 && (p == 3 || p == 4)), etcdUp := d.etcdUp, lease := .nil, s3 := d.s3,
    logOk := p != 5, batchOk := ((parts.find? fun x => x.1 == p).map (·.2)).getD true,
    appendOk := true, flushOk := true, acks0 := acks0, flushOnAck := true }

def render (acks0 : Bool) (outs : List (Nat × PartOut)) : String :=
  let codes := if acks0 then "none" else joinWith "," (outs.map fun o => s!"{o.1}={o.2.code}")
  let writes := joinWith "," (outs.map fun o => s!"{o.1}={if o.2.flushed then 1 else 0}")
  s!"codes={codes} writes={writes}"

/-- the handler's produce path for the listed partitions (Model/ProduceGate.produceRequest) -/
def produce (d : D) (acks0 : Bool) (parts : List (Nat × Bool)) : D × String :=
  let (l, outs) := produceRequest 0 d.txnFail noCancel (envOf d acks0 parts) d.l (parts.map (·.1))
  ({ d with l := l }, render acks0 outs)

/-- start broker 0's Acquire of `r` and stop right after its first lease transaction has executed -/
def acquireUntilFirstTxn (l : Lease.State) (r : Nat) (fail : Bool) : Lease.State × Option Res :=
  let (l1, r1) := Lease.step .byRev l (.acquire 0 r)
  match r1 with
  | some x => (l1, some x)
  | none =>
    let rec go (fuel : Nat) (l : Lease.State) : Lease.State × Option Res :=
      match fuel with
      | 0 => (l, none)
      | fuel + 1 =>
        match l.acq 0 r with
        | some .g1 | some .grant | some (.g3 _) =>
          let (l', res) := Lease.step .byRev l (.step 0 r)
          match res with
          | some x => (l', some x)
          | none => go fuel l'
        | some (.txn _) =>
          if fail then ((Lease.step .byRev l (.abort 0 r)).1, some .err)   -- the transaction errors out: nothing to park after
          else ((Lease.step .byRev l (.step 0 r)).1, none)
        | _ => (l, none)
    go 8 l1

def leaseStr : LeaseRes → String
  | .nil => "ok"
  | .notOwner => "notowner"
  | .shuttingDown => "shutdown"
  | .other => "err"

def expireAll (l : Lease.State) : Lease.State :=
  (List.range l.nextLease).foldl (fun l x =>
    if l.live x && enabledB 2 l (.expire x) then (Lease.step .byRev l (.expire x)).1 else l) l

def stepLine (d : D) (ws : List String) : D × String :=
  match ws with
  | ["reset"] => (D.fresh, "reset " ++ obs D.fresh)
  | ["acl", x] => let d' := { d with aclDeny1 := x == "deny1" }; (d', "- " ++ obs d')
  | ["etcd", x] => let d' := { d with etcdUp := x == "up" }; (d', "- " ++ obs d')
  | ["s3", x] =>
    let d' := { d with s3 := if x == "degraded" then .degraded else if x == "unavailable" then .unavailable else .healthy }
    (d', "- " ++ obs d')
  | ["txnfail", x] => let d' := { d with txnFail := x == "on" }; (d', "- " ++ obs d')
  | ["b", "acquire", r] => match r.toNat? with
    | some r => let (l, res) := runAcquire d.l 1 r false; let d' := { d with l := l }; (d', resStr res ++ " " ++ obs d')
    | none => (d, "bad-op")
  | ["b", "release", r] => match r.toNat? with
    | some r =>
      let l1 := (Lease.step .byRev d.l (.release 1 r)).1
      let l2 := if l1.dels.length > 0 then (Lease.step .byRev l1 (.del (l1.dels.length - 1))).1 else l1
      let d' := { d with l := l2 }; (d', "- " ++ obs d')
    | none => (d, "bad-op")
  | ["a", "lost"] => let d' := { d with l := (Lease.step .byRev d.l (.sessionLost 0)).1 }; (d', "- " ++ obs d')
  | ["a", "expire"] => let d' := { d with l := expireAll d.l }; (d', "- " ++ obs d')
  | ["a", "releaseall"] =>
    let l1 := (Lease.step .byRev d.l (.releaseAll 0)).1
    let l2 := if l1.revokes.length > 0 then (Lease.step .byRev l1 (.revoke (l1.revokes.length - 1))).1 else l1
    let d' := { d with l := l2 }; (d', "- " ++ obs d')
  | "produce" :: acks :: parts =>
    let (d', txt) := produce d (acks == "0") (parts.filterMap parsePart)
    (d', txt ++ " " ++ obs d')
  | "tproduce" :: acks :: _timeoutMs :: parts =>
    -- TimeoutMillis shorter than the etcd round trip: the client's timeout does not bound (or cut short) the lease step;
    -- every Acquire still runs to completion and its result is what the gate sees
    let (d', txt) := produce d (acks == "0") (parts.filterMap parsePart)
    (d', txt ++ " " ++ obs d')
  | "cacquire" :: _timeoutMs :: parts =>
    -- AcquireAll with a ctx that is done before the etcd round trips answer; the harness' etcd client finishes a transaction
    -- it has started, so every Acquire completes: the slots carry the real outcomes (never a left-over nil)
    let (l, res) := acquireAll 0 d.txnFail noCancel d.l ((parts.filterMap parsePart).map (·.1))
    let d' := { d with l := l }
    (d', "res=" ++ joinWith "," (res.map fun x => s!"{x.1}={leaseStr x.2}") ++ " " ++ obs d')
  | "xproduce" :: acks :: parts =>
    -- the session is lost and the loss is first noticed by the `Done()` branch of getOrCreateSession inside this request's
    -- Acquire (of a partition the broker does not own yet), before monitorSession gets the lock: as coded that branch drops
    -- session AND ownership, i.e. it is `sessionLost` followed by the produce
    let d1 := { d with l := (Lease.step .byRev d.l (.sessionLost 0)).1 }
    let (d', txt) := produce d1 (acks == "0") (parts.filterMap parsePart)
    (d', txt ++ " " ++ obs d')
  | ["gproduce", acks, part] =>
    let (d', txt) := produce d (acks == "0") ([part].filterMap parsePart)
    ({ d' with pending := some txt }, "parked " ++ obs d')
  | ["lproduce", acks, part] =>
    -- the request is parked inside Acquire, between its first and (if any) second etcd round trip
    match ([part].filterMap parsePart) with
    | [(r, valid)] =>
      if owns d.l 0 r then
        let (d', txt) := produce d (acks == "0") [(r, valid)]
        ({ d' with pending := some txt }, "parked " ++ obs d')
      else
        let (l1, res) := acquireUntilFirstTxn d.l r d.txnFail
        match res with
        | some x =>
          -- the call finished before any lease transaction could park it
          let i := { envOf d (acks == "0") [(r, valid)] r with lease := ofRes (some x) }
          let d' := { d with l := l1, pending := some (render (acks == "0") [(r, producePart i)]) }
          (d', "parked " ++ obs d')
        | none =>
          let d' := { d with l := l1, pending := some s!"L {acks} {part}" }
          (d', "parked " ++ obs d')
    | _ => (d, "bad-op")
  | ["lresume"] =>
    match d.pending with
    | some txt =>
      match words txt with
      | ["L", acks, part] =>
        match ([part].filterMap parsePart) with
        | [(r, valid)] =>
          -- finish the in-flight Acquire (if it already finished, the entry checks give the same answer)
          let (l2, res) := match d.l.acq 0 r with
            | some _ => finishAcquire 0 r d.txnFail 12 d.l
            | none => runAcquire d.l 0 r d.txnFail
          let i := { envOf d (acks == "0") [(r, valid)] r with lease := ofRes res }
          let d' := { d with l := l2, pending := none }
          (d', render (acks == "0") [(r, producePart i)] ++ " " ++ obs d')
        | _ => (d, "bad-op")
      | _ => let d' := { d with pending := none }; (d', txt ++ " " ++ obs d')
    | none => (d, "bad-op")
  | ["gresume"] =>
    match d.pending with
    | some txt => let d' := { d with pending := none }; (d', txt ++ " " ++ obs d')
    | none => (d, "bad-op")
  | _ => (d, "bad-op")

def main : IO Unit := runLines D.fresh stepLine
