import KafVerif.Model.StorageLogS3
import KafVerif.Prelude.Driver
/-!
Model driver of the C01 lower seam (awsS3Client over an S3 API with an outcome oracle): same op lines and
result lines as `harness/C01/root/cmd/verif_c01s3/main.go`.  Driver code: nothing is proved about this file.
-/
open KafVerif KafVerif.S3Aws

def parseTok (s : String) : Option Tok :=
  match s with
  | "." => some .nat
  | "nsb" => some (.fail .nsb) | "nf" => some (.fail .nf) | "slow" => some (.fail .slow)
  | "owned" => some (.fail .owned) | "exists" => some (.fail .exists_) | "h404" => some (.fail .h404)
  | "nokey" => some (.fail .nokey) | "badbody" => some (.fail .badbody) | "badrange" => some (.fail .badrange)
  | _ => none

def parseScript (s : String) : Option (List Tok) :=
  if s == "-" then some [] else (s.splitOn ",").mapM parseTok

def showCalls (s : St) : String := if s.calls.isEmpty then "-" else joinWith "," s.calls

def showObj (a : Api) (key : String) : String :=
  match lookup a.objs key with
  | none => "none"
  | some d => toHex d

def segKey : String := "default/orders/0/segment-00000000000000000000.kfs"
def idxKey : String := "default/orders/0/segment-00000000000000000000.index"

def stepS3 (a : Api) (ws : List String) : Api × String :=
  match ws with
  | ["reset", b] => ({ bucket := b == "1", objs := [] }, "reset")
  | ["put", _, key, hx, sc] =>
    match fromHex hx, parseScript sc with
    | some body, some script =>
      let (s, ok) := putObject { api := a, script := script } key body
      (s.api, s!"put ret={if ok then "nil" else "err"} obj={showObj s.api key} calls={showCalls s}")
    | _, _ => (a, "bad-op")
  | ["get", kind, key, rng, sc] =>
    match parseScript sc with
    | none => (a, "bad-op")
    | some script =>
      let r? : Option (Option (Int × Int)) :=
        if rng == "-" then some none else
        match rng.splitOn ":" with
        | [x, y] => match x.toInt?, y.toInt? with
          | some x, some y => some (some (x, y))
          | _, _ => none
        | _ => none
      match r? with
      | none => (a, "bad-op")
      | some r =>
        let (s, res) := if kind == "seg" then downloadSegment { api := a, script := script } key r
                        else downloadIndex { api := a, script := script } key
        let (rs, ds) := match res with
          | .data d => ("nil", toHex d)
          | .notfound => ("notfound", "-")
          | .err => ("err", "-")
        (s.api, s!"get ret={rs} data={ds} calls={showCalls s}")
  | ["del", _, key, sc] =>
    match parseScript sc with
    | none => (a, "bad-op")
    | some script =>
      let (s, ok) := deleteObject { api := a, script := script } key
      (s.api, s!"del ret={if ok then "nil" else "err"} obj={showObj s.api key} calls={showCalls s}")
  | ["list", pfx, sc] =>
    match parseScript sc with
    | none => (a, "bad-op")
    | some script =>
      let (s, r) := listSegments { api := a, script := script } pfx (a.objs.length + 2) none []
      let (rs, ks) := match r with
        | some ks => ("nil", if ks.isEmpty then "-" else joinWith "," (ks.map fun (k : String × Nat) => s!"{k.1}:{k.2}"))
        | none => ("err", "-")
      (s.api, s!"list ret={rs} keys={ks} calls={showCalls s}")
  | ["ensure", sc] =>
    match parseScript sc with
    | none => (a, "bad-op")
    | some script =>
      let (s, ok) := ensureBucket { api := a, script := script }
      (s.api, s!"ensure ret={if ok then "nil" else "err"} bucket={s.api.bucket} calls={showCalls s}")
  | ["flush", n, sc1, sc2] =>
    match n.toNat?, parseScript sc1, parseScript sc2 with
    | some n, some s1, some s2 =>
      -- the two uploads of `uploadFlush` (concurrent in the code; scripts restricted to natural / non-bucket failures,
      -- for which every interleaving gives the same per-key outcome): a PUT that meets a missing bucket answers
      -- NoSuchBucket without consuming the key's script
      let pre (a : Api) : List Tok := if a.bucket then [] else [.nat, .nat, .nat]
      let segBody : Bytes := [1, UInt8.ofNat n]
      let idxBody : Bytes := [2, UInt8.ofNat n]
      let (t1, ok1) := putObject { api := a, script := pre a ++ s1 } segKey segBody
      let (t2, ok2) := putObject { api := t1.api, script := pre t1.api ++ s2 } idxKey idxBody
      let st (key : String) (b : Bytes) : String := match lookup t2.api.objs key with
        | none => "absent"
        | some d => if d == b then "ok" else "differs"
      (t2.api, s!"flush ret={if ok1 && ok2 then "nil" else "err"} seg={st segKey segBody} idx={st idxKey idxBody}")
    | _, _, _ => (a, "bad-op")
  | _ => (a, "bad-op")

def main : IO Unit := runLines ({ bucket := true, objs := [] } : Api) stepS3
