import KafVerif.Model.KafkaDriver
import KafVerif.Model.KafkaAlloc
open KafVerif KafVerif.Kafka

/-- total bytes requested by the `make`s of the op, by the instrumented model (`Model/KafkaAlloc.lean`);
`none` for ops without an instrumented counterpart -/
def allocOf (d : DriverCfg) (ws : List String) : Option Nat :=
  match ws with
  | ["dec", hx] =>
    match fromHex hx, cfgOf d.variant with
    | some b, some c => some (decodeSegmentA d.alloc c b).cost
    | _, _ => none
  | ["didx", hx] =>
    match fromHex hx with
    | none => none
    | some b =>
      if d.variant = "iceberg" then some (parseIndexIcebergA d.alloc true b).cost
      else if d.variant = "iceberg_old" then some (parseIndexIcebergA d.alloc false b).cost
      else if d.variant = "sql" then some (parseIndexSqlA d.alloc true b).cost
      else some (parseIndexSqlA d.alloc false b).cost
  | ["pidx", hx] => (fromHex hx).map fun b => (parseIndexRootA d.alloc b).cost
  | ["collect", cut, hx] =>
    match cut.toInt?, fromHex hx with
    | some c, some b => some (collectRecoverableA d.crc d.alloc b c).cost
    | _, _ => none
  | ["plan", rs, cr, shx, ihx] =>
    match rs.toInt?, cr.toInt?, fromHex shx, fromHex ihx with
    | some r, some c, some s, some i => some (buildRestorePlanA d.crc d.alloc s i r c).cost
    | _, _, _, _ => none
  | _ => none

/-- the constants of the total-allocation theorems (`KafVerif.C34.*_total_alloc`), for the allocation monitor -/
def boundsLine : String :=
  s!"bounds decode={allocDecodeA},{allocDecodeB} pidx={allocIndexRootA},{allocIndexB} didx={allocIndexProcA},{allocIndexB} " ++
  s!"collect={allocCollectA},{allocCollectB}"

def step34 (d : DriverCfg) (ws : List String) : String :=
  match ws with
  | ["allocbounds"] => boundsLine
  | w :: rest =>
    let (d', ws') := if w.startsWith "@" then ({ d with variant := (w.drop 1).toString }, rest) else (d, ws)
    let line := kafkaStep1 d' ws'
    match allocOf d' ws' with
    | some n => line ++ s!" #malloc={n}"
    | none => line
  | [] => "bad-op"

/-- `lean --run Driver/C34.lean`: every line carries its own `@variant` (root | iceberg | sql | …_old);
ops with an instrumented model get the suffix ` #malloc=N` (bytes requested by the model's `make`s) -/
def main (args : List String) : IO Unit := do
  let tab := crcTable
  let d : DriverCfg := ⟨args.headD "root", crc32cWith tab, goMakeLim AllocMax⟩
  runLines () fun _ ws => ((), step34 d ws)
