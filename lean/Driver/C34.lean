import KafVerif.Model.KafkaDriver
open KafVerif KafVerif.Kafka

/-- `lean --run Driver/C34.lean`: every line carries its own `@variant` (root | iceberg | sql | …_old) -/
def main (args : List String) : IO Unit := do
  let tab := crcTable
  let d : DriverCfg := ⟨args.headD "root", crc32cWith tab, goMakeLim AllocMax⟩
  runLines () fun _ ws => ((), kafkaStep d ws)
