import KafVerif.Model.Processor
import KafVerif.Prelude.Driver
/-! Line-protocol driver for the processor loop model (C33).

```
case <variant> <mem|noop> [stats=next|footer]   -> case
seg <tp> <o1,o2,…|->              -> seg
cycle <listFail 0|1> <claim bits|-> <faults: n l d s c f<o1+o2…>, comma separated|->
                                   -> cycle lease=<tp|-> wrote=<tp:o,…|-> cp=<tp=v,…|->
lost                               -> lost
```
-/
open KafVerif KafVerif.Processor

structure DS where
  kind : StoreKind := .mem
  segs : List Seg := []
  st : St := init

def parseOffs (s : String) : List Nat :=
  if s = "-" then [] else (s.splitOn ",").filterMap (·.toNat?)

def parseFault (s : String) : Fault :=
  match s.toList with
  | 'l' :: _ => .load
  | 'd' :: _ => .decode
  | 's' :: _ => .sink
  | 'c' :: _ => .commit
  | 'f' :: rest => .lfs (((String.ofList rest).splitOn "+").filterMap (·.toNat?))
  | _ => .none

def dedup : List Nat → List Nat
  | [] => []
  | a :: t => a :: (dedup t).filter (· ≠ a)

def insertSorted (a : Nat) : List Nat → List Nat
  | [] => [a]
  | b :: t => if a ≤ b then a :: b :: t else b :: insertSorted a t

def sortNat (l : List Nat) : List Nat := l.foldr insertSorted []

def showOpt (l : List String) : String := if l.isEmpty then "-" else joinWith "," l

def stepLine (d : DS) (ws : List String) : DS × String :=
  match ws with
  | ["case", _, k] => ({ kind := if k = "noop" then .noop else .mem, segs := [], st := init }, "case")
  -- the optional 4th field names the offset statistics the fake Lister attaches to the listing
  -- (sql: MinOffset/MaxOffset); the loop under test does not read them, so neither does the model
  | ["case", _, k, _] => ({ kind := if k = "noop" then .noop else .mem, segs := [], st := init }, "case")
  | ["seg", tp, offs] =>
    match tp.toNat? with
    | some tp => ({ d with segs := d.segs ++ [⟨tp, parseOffs offs⟩] }, "seg")
    | none => (d, "bad-op")
  | ["cycle", lf, cl, fs] =>
    let o : Oracle := {
      listFail := lf = "1",
      claimFail := if cl = "-" then [] else cl.toList.map (· = '1'),
      faults := if fs = "-" then [] else (fs.splitOn ",").map parseFault }
    let s' := cycle d.kind d.segs o d.st
    let wrote := (s'.sink.drop d.st.sink.length).map fun p => s!"{p.1}:{p.2}"
    let tps := sortNat (dedup (d.segs.map (·.tp)))
    let cps := tps.map fun tp => s!"{tp}={load d.kind s' tp}"
    let lease := match s'.lease with | some tp => toString tp | none => "-"
    ({ d with st := s' }, s!"cycle lease={lease} wrote={showOpt wrote} cp={showOpt cps}")
  | ["lost"] => ({ d with st := step d.kind d.segs d.st .leaseLost }, "lost")
  | _ => (d, "bad-op")

def main : IO Unit := runLines ({} : DS) stepLine
