import KafVerif.Model.Processor
import KafVerif.Prelude.Driver
/-! Line-protocol driver for the processor loop model (C33).

```
case <variant> <mem|noop> [stats=next|footer] [lister=s3|manifest|stale]   -> case
seg <tp> <o1,o2,…|->              -> seg
cycle <listFail 0|1> <claim bits|-> <faults: n l d s c f<o1+o2…>, comma separated|->
                                   -> cycle lease=<tp|-> wrote=<tp:o,…|-> cp=<tp=v,…|->
lost                               -> lost
```
With `lister=s3|manifest|stale` the listing of a tick is computed by the model of the real lister
(`listCompleted` / `listManifest` of Model/Processor.lean) over a bucket with one completed object pair
per `seg` line (base offset = first offset); the `cycle` line takes a 5th field `s3=<L|m|p<i>>+…`
(requests of this tick's `ListCompleted` that fail: ListObjectsV2, manifest GetObject, footer probe
of segment i), the per-segment faults are indexed by `seg` line, and the answer ends with
` listed=<seg indices in listing order|-|err>`.
-/
open KafVerif KafVerif.Processor

structure DS where
  kind : StoreKind := .mem
  segs : List Seg := []
  st : St := init
  lister : Nat := 0     -- 0 scripted listing, 1 real s3Lister, 2 real manifestLister (fallback s3Lister),
                        -- 3 manifestLister over a manifest written at the first tick and never refreshed
  manN : Option Nat := none  -- lister 3: how many `seg` lines the manifest names

def parseOffs (s : String) : List Nat :=
  if s = "-" then [] else (s.splitOn ",").filterMap (·.toNat?)

def parseFault (s : String) : Fault :=
  match s.toList with
  | 'l' :: _ => .load
  | 'd' :: _ => .decode
  | 's' :: _ => .sink
  | 'c' :: _ => .commit
  | 'f' :: rest => .lfs (((String.ofList rest).splitOn "+").filterMap (·.toNat?))
  | _ => .none

def dedup : List Nat → List Nat
  | [] => []
  | a :: t => a :: (dedup t).filter (· ≠ a)

def insertSorted (a : Nat) : List Nat → List Nat
  | [] => [a]
  | b :: t => if a ≤ b then a :: b :: t else b :: insertSorted a t

def sortNat (l : List Nat) : List Nat := l.foldr insertSorted []

def showOpt (l : List String) : String := if l.isEmpty then "-" else joinWith "," l

/-- one polling cycle; `s3` = the S3 fault items of the tick (real-lister cases) -/
def cycleLine (d : DS) (lf cl fs : String) (s3 : List String) : DS × String :=
  let faults := if fs = "-" then [] else (fs.splitOn ",").map parseFault
  let claimFail : List Bool := if cl = "-" then [] else cl.toList.map (· = '1')
  -- this tick's listing: `none` = ListCompleted failed
  let objs : List Obj := d.segs.map fun sg => ⟨sg, sg.offs.headD 0, true⟩
  let lo : ListOracle := {
    listErr := s3.contains "L",
    probeErr := (List.range d.segs.length).map fun i => s3.contains s!"p{i}",
    manifestErr := s3.contains "m" }
  let manN := d.manN.getD d.segs.length
  let ls : Option (List Seg) :=
    if lf = "1" then none
    else match d.lister with
      | 0 => some d.segs
      | 1 => listCompleted objs lo
      | 2 => listManifest objs objs lo
      | _ => listManifest (objs.take manN) objs lo
  -- the per-segment faults are written per `seg` line; the loop meets them in listing order
  let idxs : List Nat := match ls with
    | some l => l.map fun sg => d.segs.findIdx (· == sg)
    | none => []
  let o : Oracle := {
    listFail := false,
    claimFail := claimFail,
    faults := if d.lister = 0 then faults else idxs.map fun i => faults.getD i .none }
  let s' := cycleWith ls d.kind o d.st
  let wrote := (s'.sink.drop d.st.sink.length).map fun p => s!"{p.1}:{p.2}"
  let tps := sortNat (dedup (d.segs.map (·.tp)))
  let cps := tps.map fun tp => s!"{tp}={load d.kind s' tp}"
  let lease := match s'.lease with | some tp => toString tp | none => "-"
  let listed := if d.lister = 0 then "" else
    match ls with
    | some _ => s!" listed={showOpt (idxs.map toString)}"
    | none => " listed=err"
  ({ d with st := s', manN := some manN }, s!"cycle lease={lease} wrote={showOpt wrote} cp={showOpt cps}{listed}")

def stepLine (d : DS) (ws : List String) : DS × String :=
  match ws with
  -- options after the store kind: `stats=` names the offset statistics the fake Lister attaches to the
  -- listing (sql: MinOffset/MaxOffset); the loop under test does not read them, so neither does the
  -- model.  `lister=` selects the model of the real lister.
  | "case" :: _ :: k :: opts =>
    let lister := if opts.contains "lister=s3" then 1 else if opts.contains "lister=manifest" then 2
      else if opts.contains "lister=stale" then 3 else 0
    ({ kind := if k = "noop" then .noop else .mem, segs := [], st := init, lister := lister }, "case")
  | ["seg", tp, offs] =>
    match tp.toNat? with
    | some tp => ({ d with segs := d.segs ++ [⟨tp, parseOffs offs⟩] }, "seg")
    | none => (d, "bad-op")
  | ["cycle", lf, cl, fs] => cycleLine d lf cl fs []
  | ["cycle", lf, cl, fs, s3] =>
    cycleLine d lf cl fs (if s3.startsWith "s3=" then (String.ofList (s3.toList.drop 3)).splitOn "+" else [])
  | ["lost"] => ({ d with st := step d.kind d.segs d.st .leaseLost }, "lost")
  | _ => (d, "bad-op")

def main : IO Unit := runLines ({} : DS) stepLine
