import KafVerif.Model.LfsResolve
import KafVerif.Model.LfsIceberg
import KafVerif.Prelude.Driver
open KafVerif KafVerif.LfsResolve KafVerif.LfsIceberg

/-! C30 driver.  Ops (strings in hex, `-` = empty; everything after `|` is the hash table
`<blob> <sha256> <md5> <crc32>` … supplied by the check, so that `H` is a lookup):
`resolve <max> <validate> <nil|err|ok> <payload> (env <ver> <bucket> <key> <sha> <cksum> <alg> | raw <value>)`
`unwrap <validate> <err|ok> <payload> (env … | raw …)`
`download <presign> <maxBlob> <mode> <none|some> <sha> <alg> <size> <missing|body|bodyerr> <obj>`
`ice <ok|nil> {M <mode> <max> <meta> <1|0|d> <conc>}+ {K <key> <ok|err> <blob>}* {C <mapping> {R (env <ver> <bucket> <key> <sha> <cksum> <alg> <size> | raw <value> - - - - - -)}*}*`
  one iceberg Processor (mappings M, shared store K), then `resolveLfsRecords` calls C in the given order -/

def splitBar (ws : List String) : List String × List String :=
  (ws.takeWhile (· ≠ "|"), (ws.dropWhile (· ≠ "|")).drop 1)

def table : List String → List (Bytes × Bytes × Bytes × Bytes)
  | b :: s :: m :: c :: rest =>
    match fromHex b, fromHex s, fromHex m, fromHex c with
    | some b, some s, some m, some c => (b, s, m, c) :: table rest
    | _, _, _, _ => table rest
  | _ => []

def mkH (t : List (Bytes × Bytes × Bytes × Bytes)) : Alg → Bytes → Bytes := fun a d =>
  match t.find? (fun e => e.1 == d) with
  | some (_, s, m, c) => (match a with | .sha256 => s | .md5 => m | .crc32 => c | .none => [])
  | none => LfsEnvelope.ascii "?no-hash-supplied?"

def value : List String → Option Value
  | ["raw", v] => (fromHex v).map .raw
  | ["env", ver, bucket, key, sha, ck, alg] => do
    let ver ← ver.toInt?
    pure (.env ⟨ver, ← fromHex bucket, ← fromHex key, ← fromHex sha, ← fromHex ck, ← fromHex alg⟩)
  | _ => none

def showOut (full : Bool) : Out → String
  | .passthrough v => s!"passthrough {toHex v}"
  | .err => "err"
  | .ok blob alg exp => if full then s!"ok blob={toHex blob} alg={alg.name} exp={toHex exp}" else s!"ok blob={toHex blob}"

def showResp : Resp → String
  | .status c => s!"status {c}"
  | .presigned sha size => s!"presigned sha={toHex sha} size={size}"
  | .bytes b => s!"bytes {toHex b}"

/-- split a token list at every occurrence of `sep` (the separators are dropped) -/
def splitTok (sep : String) : List String → List (List String)
  | [] => [[]]
  | w :: rest =>
    match splitTok sep rest with
    | [] => [[w]]          -- unreachable
    | cur :: more => if w == sep then [] :: cur :: more else (w :: cur) :: more

def iceMode (s : String) : LMode :=
  if s == "off" then .off else if s == "resolve" then .resolve else if s == "reference" then .reference
  else if s == "skip" then .skip else if s == "hybrid" then .hybrid else .other

def iceMapping : List String → Option LfsCfg
  | [mode, max, _meta, val, _conc] => do          -- store_metadata / resolve_concurrency are not inputs of the decision
    let max ← max.toInt?
    pure ⟨iceMode mode, max, if val == "d" then none else some (val == "1")⟩
  | _ => none

def iceKey : List String → Option (Bytes × Option Bytes)
  | [k, kind, blob] => do
    let k ← fromHex k
    let blob ← fromHex blob
    pure (k, if kind == "ok" then some blob else none)
  | _ => none

def iceRec : List String → Option Rec
  | ["raw", v, _, _, _, _, _, _] => (fromHex v).map fun v => ⟨.raw v, 0⟩
  | ["env", ver, bucket, key, sha, ck, alg, size] => do
    let ver ← ver.toInt?
    let size ← size.toInt?
    pure ⟨.env ⟨ver, ← fromHex bucket, ← fromHex key, ← fromHex sha, ← fromHex ck, ← fromHex alg⟩, size⟩
  | _ => none

def iceCall : List String → Option (Nat × List Rec)
  | ws =>
    match splitTok "R" ws with
    | [m] :: recs => do
      let m ← m.toNat?
      let recs ← recs.mapM iceRec
      pure (m, recs)
    | _ => none

def showRecOut : RecOut × Nat → String
  | (.kept, i) => s!"{i}:k"
  | (.blob b, i) => s!"{i}:b={toHex b}"
  | (.dropped, i) => s!"{i}:dropped"
  | (.fail, i) => s!"{i}:fail"

def showCall : CallOut → String
  | .err => "err"
  | .ok outs => " ".intercalate ("ok" :: outs.map showRecOut)

def iceLine (H : Alg → Bytes → Bytes) (ws : List String) : String :=
  match splitTok "C" ws with
  | head :: calls =>
    match splitTok "K" head with
    | mhead :: keys =>
      match splitTok "M" mhead with
      | [s3k] :: maps =>
        match maps.mapM iceMapping, keys.mapM iceKey, calls.mapM iceCall with
        | some maps, some keys, some calls =>
          -- the shared reader: an unknown key and a scripted failure are both a fetch error
          let fetch : Bytes → Option Bytes := fun k => (keys.find? (fun e => e.1 == k)).bind (·.2)
          let p : Proc := ⟨if s3k == "nil" then none else some fetch, maps⟩
          "ice " ++ " ; ".intercalate ((runWith perMapping H p ⟨none⟩ calls).2.map showCall)
        | _, _, _ => "bad-op"
      | _ => "bad-op"
    | _ => "bad-op"
  | _ => "bad-op"

def stepLine (_ : Unit) (ws0 : List String) : Unit × String :=
  let (ws, tab) := splitBar ws0
  let H := mkH (table tab)
  match ws with
  | "ice" :: rest => ((), iceLine H rest)
  | "resolve" :: max :: validate :: s3k :: payload :: rest =>
    match max.toInt?, fromHex payload, value rest with
    | some max, some payload, some v =>
      let s3 : Option (Bytes → Option Bytes) :=
        if s3k == "nil" then none else some (fun _ => if s3k == "err" then none else some payload)
      ((), showOut true (resolve H ⟨max, validate == "1"⟩ s3 v))
    | _, _, _ => ((), "bad-op")
  | "unwrap" :: validate :: s3k :: payload :: rest =>
    match fromHex payload, value rest with
    | some payload, some v =>
      ((), showOut false (unwrap H (validate == "1") (fun _ => if s3k == "err" then none else some payload) v))
    | _, _ => ((), "bad-op")
  | ["download", presign, maxBlob, mode, integ, sha, alg, size, objk, obj] =>
    match maxBlob.toInt?, fromHex mode, fromHex sha, fromHex alg, size.toInt?, fromHex obj with
    | some maxBlob, some mode, some sha, some alg, some size, some obj =>
      let ig : Option Integrity := if integ == "some" then some ⟨sha, alg, size⟩ else none
      let o : Obj := if objk == "missing" then .missing else .body obj (objk == "bodyerr")
      ((), showResp (download (H .sha256) (presign == "1") maxBlob mode ig o))
    | _, _, _, _, _, _ => ((), "bad-op")
  | ["download", presign, maxBlob, mode, integ, sha, alg, size, objk, obj, _rid] =>     -- the request id is not an input of the decision
    match maxBlob.toInt?, fromHex mode, fromHex sha, fromHex alg, size.toInt?, fromHex obj with
    | some maxBlob, some mode, some sha, some alg, some size, some obj =>
      let ig : Option Integrity := if integ == "some" then some ⟨sha, alg, size⟩ else none
      let o : Obj := if objk == "missing" then .missing else .body obj (objk == "bodyerr")
      ((), showResp (download (H .sha256) (presign == "1") maxBlob mode ig o))
    | _, _, _, _, _, _ => ((), "bad-op")
  | "cdl" :: _n :: _order :: rest =>
    -- concurrent downloads are INDEPENDENT in the model: each answer is the sequential decision for
    -- its own request and its own object, whatever the request ids and the schedule
    let rec go : List String → List String
      | _rid :: sha :: size :: obj :: more =>
        (match fromHex sha, size.toInt?, fromHex obj with
         | some sha, some size, some obj =>
           (match download (H .sha256) false 0 (LfsEnvelope.ascii "stream") (some ⟨sha, [], size⟩) (.body obj false) with
            | .status c => s!"status:{c}"
            | .presigned _ _ => "presigned"
            | .bytes b => s!"bytes:{toHex b}")
         | _, _, _ => "bad") :: go more
      | _ => []
    ((), "cdl " ++ " ".intercalate (go rest))
  | _ => ((), "bad-op")

def main : IO Unit := runLines () stepLine
