import KafVerif.Model.SqlProxy
import KafVerif.Prelude.Driver
/-! Line-protocol driver for the SQL proxy model (C37).
`conn <ttl> <max> <allow hex,…|-> <deny hex,…|->`, `q <hex>` -> `fwd <hex>` | `deny`;
`oq <hex>` runs the pre-fix handler. -/
open KafVerif KafVerif.SqlParser KafVerif.SqlProxy

structure DS where
  acl : Acl := ⟨[], []⟩
  cache : Cache := ⟨false, 0, []⟩
  cacheOld : Cache := ⟨false, 0, []⟩

def parseList (s : String) : Option (List Bytes) :=
  if s = "-" then some [] else (s.splitOn ",").mapM fromHex

def stepLine (d : DS) (ws : List String) : DS × String :=
  match ws with
  | ["topics", _] => (d, "topics")
  | ["conn", ttl, mx, al, dn] =>
    match ttl.toInt?, mx.toInt?, parseList al, parseList dn with
    | some t, some m, some a, some dl =>
      let c : Cache := ⟨decide (t > 0 ∧ m > 0), m.toNat, []⟩
      ({ acl := ⟨a, dl⟩, cache := c, cacheOld := c }, "conn")
    | _, _, _, _ => (d, "bad-op")
  | ["q", hx] =>
    match fromHex hx with
    | some q =>
      let (c, r) := handle modelEnv d.acl d.cache q false
      ({ d with cache := c }, match r with | some t => "fwd " ++ toHex t | none => "deny")
    | none => (d, "bad-op")
  | ["oq", hx] =>
    match fromHex hx with
    | some q =>
      let (c, r) := handleOld modelEnv d.acl d.cacheOld q false
      ({ d with cacheOld := c }, match r with | some t => "fwd " ++ toHex t | none => "deny")
    | none => (d, "bad-op")
  | _ => (d, "bad-op")

def main : IO Unit := runLines ({} : DS) stepLine
