import KafVerif.Model.SqlProxy
import KafVerif.Prelude.Driver
/-! Line-protocol driver for the SQL proxy model (C37).
`conn <ttl> <max> <allow hex,…|-> <deny hex,…|->` (`~` = an empty list element, `-` = the empty list),
`q <hex>` -> `fwd <hex> view=<topic hex,…|-> listed=<0|1> kind=<k>` | `deny`, where view/listed are
the UPSTREAM model's view (`upstreamView`) of the forwarded text and `k` says which branch of the
upstream answers (cat, set, showtopics, showparts, describe, select, explain, err);
`oq <hex>` runs the pre-fix handler; `acl <allow> <deny> <topic hex>` -> `acl ma= md= allows= show=` (acl.go alone). -/
open KafVerif KafVerif.SqlParser KafVerif.SqlProxy

structure DS where
  acl : Acl := ⟨[], []⟩
  cache : Cache := ⟨false, 0, []⟩
  cacheOld : Cache := ⟨false, 0, []⟩

def parseList (s : String) : Option (List Bytes) :=
  if s = "-" then some [] else (s.splitOn ",").mapM fun h => if h = "~" then some [] else fromHex h

/-- `goEnv` with the parser model evaluated once for the text at hand (same function, memoised) -/
def envFor (q : Bytes) : Env × GoResult Q :=
  let pr := parse q
  let r := queryTopics pr
  ({ P := fun x => if x == q then r else goEnv.P x, lowerU := goEnv.lowerU }, pr)

def kindOf (e : Env) (pr : GoResult Q) (q : Bytes) : String :=
  if upCatalog e.lowerU (upEntry q) then "cat"
  else if upSet e.lowerU (upEntry q) then "set"
  else match (if upEntry q == q then pr else parse (upEntry q)) with
    | .ok .showTopics => "showtopics"
    | .ok (.showPartitions _) => "showparts"
    | .ok (.describe _) => "describe"
    | .ok (.select _) => "select"
    | .ok (.explain _) => "explain"
    | _ => "err"

def showFwd (e : Env) (pr : GoResult Q) (t : Bytes) : String :=
  let v := upstreamView e t
  let ts := if v.1.isEmpty then "-" else ",".intercalate (v.1.map toHex)
  "fwd " ++ toHex t ++ " view=" ++ ts ++ " listed=" ++ (if v.2 then "1" else "0") ++ " kind=" ++ kindOf e pr t

def stepLine (d : DS) (ws : List String) : DS × String :=
  match ws with
  | ["topics", _] => (d, "topics")
  | ["conn", ttl, mx, al, dn] =>
    match ttl.toInt?, mx.toInt?, parseList al, parseList dn with
    | some t, some m, some a, some dl =>
      let c : Cache := ⟨decide (t > 0 ∧ m > 0), m.toNat, []⟩
      ({ acl := ⟨a, dl⟩, cache := c, cacheOld := c }, "conn")
    | _, _, _, _ => (d, "bad-op")
  | ["q", hx] =>
    match fromHex hx with
    | some q =>
      let (e, pr) := envFor q
      let (c, r) := handle e d.acl d.cache q false
      ({ d with cache := c }, match r with | some t => showFwd e pr t | none => "deny")
    | none => (d, "bad-op")
  | ["acl", al, dn, hx] =>
    match parseList al, parseList dn, fromHex hx with
    | some a, some dl, some t =>
      let b (v : Bool) : String := if v then "1" else "0"
      (d, "acl ma=" ++ b (matchPatterns a t) ++ " md=" ++ b (matchPatterns dl t) ++ " allows=" ++ b (allows ⟨a, dl⟩ t)
        ++ " show=" ++ b (allowShowTopics ⟨a, dl⟩))
    | _, _, _ => (d, "bad-op")
  | ["oq", hx] =>
    match fromHex hx with
    | some q =>
      let (c, r) := handleOld modelEnv d.acl d.cacheOld q false
      ({ d with cacheOld := c }, match r with | some t => "fwd " ++ toHex t | none => "deny")
    | none => (d, "bad-op")
  | _ => (d, "bad-op")

def main : IO Unit := runLines ({} : DS) stepLine
