import KafVerif.Model.MetaStore
import KafVerif.Prelude.Driver
open KafVerif KafVerif.MetaStore

def showOut : Out → String
  | .ok => "ok" | .errExists => "exists" | .errInvalid => "invalid" | .errUnknown => "unknown" | .errOther => "err"
  | .topics l =>
    if l.isEmpty then "T:-" else
    "T:" ++ joinWith "," (l.map fun e => s!"{e.1}=" ++ (match e.2 with | some n => toString n | none => "?"))
  | .offset o => s!"O:{o}"
  | .coff o md => s!"C:{o}/{md}"
  | .coffs l => if l.isEmpty then "L:-" else "L:" ++ joinWith "," (l.map fun e => s!"{e.1.1}.{e.1.2.1}.{e.1.2.2}={e.2}")
  | .group p => "G:" ++ (match p with | some x => toString x | none => "none")
  | .groups l => if l.isEmpty then "GS:-" else "GS:" ++ joinWith "," (l.map fun e => s!"{e.1}={e.2}")
  | .cfg c => s!"F:{c.parts}/{c.rf}/{c.payload}"

def nat? (s : String) : Option Nat := s.toNat?
def int? (s : String) : Option Int := s.toInt?

def parseOp : List String → Option Op
  | ["ct", t, n, rf] => do pure (.createTopic (← nat? t) (← int? n) (← int? rf))
  | ["dt", t] => do pure (.deleteTopic (← nat? t))
  | ["cp", t, n] => do pure (.createPartitions (← nat? t) (← int? n))
  | ["md", ts] => if ts = "-" then some (.metadata []) else ((ts.splitOn ",").mapM nat?).map .metadata
  | ["no", t, p] => do pure (.nextOffset (← nat? t) (← int? p))
  | ["uo", t, p, l] => do pure (.updateOffsets (← nat? t) (← int? p) (← int? l))
  | ["co", g, t, p, o, md] => do pure (.commit (← nat? g) (← nat? t) (← int? p) (← int? o) (← nat? md))
  | ["fo", g, t, p] => do pure (.fetch (← nat? g) (← nat? t) (← int? p))
  | ["lo"] => some .listOffsets
  | ["pg", g, p] => do pure (.putGroup (← nat? g) (← nat? p))
  | ["fg", g] => do pure (.fetchGroup (← nat? g))
  | ["lg"] => some .listGroups
  | ["dg", g] => do pure (.deleteGroup (← nat? g))
  | ["fc", t] => do pure (.fetchConfig (← nat? t))
  | ["uc", t, parts, payload] => do pure (.updateConfig (← nat? t) (← int? parts) (← nat? payload))
  | _ => none

def stepLine (s : Mem × Etcd) (ws : List String) : (Mem × Etcd) × String :=
  match ws with
  | ["new", b] => match b.toNat? with
    | some b => ((initM b, initE b), "new")
    | none => (s, "bad-op")
  | _ => match parseOp ws with
    | some op =>
      let (m', om) := stepM s.1 op
      -- `stepE` with etcd's default limits (= `stepE` whenever the snapshot fits: `C17.limited_step_eq`)
      let (e', oe) := stepEL etcdDefaults false s.2 op
      ((m', e'), s!"M={showOut om} E={showOut oe}")
    | none => (s, "bad-op")

def main : IO Unit := runLines (initM 1, initE 1) stepLine
