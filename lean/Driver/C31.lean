import KafVerif.Model.LfsRewrite
import KafVerif.Prelude.Driver
open KafVerif KafVerif.LfsRewrite KafVerif.LfsResolve

/-! C31 driver.  One op per line:
`rewrite <maxBlob> <defaultAlg> <failUploadAt|-1> <failDelete> {T <topic> {P <n> {B <codec> <numRecords> {R <attrs> <ts> <off> <key> <value> <nh> {<hk> <hv>}}}}} [| hash table]`
byte tokens: `nil` | `-` (empty) | hex.  Hash table as in the C30 driver. -/

def tokB (s : String) : Option (Option Bytes) :=
  if s == "nil" then some none else (fromHex s).map some

def showB : Option Bytes → String
  | none => "nil"
  | some b => toHex b

def table : List String → List (Bytes × Bytes × Bytes × Bytes)
  | b :: s :: m :: c :: rest =>
    match fromHex b, fromHex s, fromHex m, fromHex c with
    | some b, some s, some m, some c => (b, s, m, c) :: table rest
    | _, _, _, _ => table rest
  | _ => []

def mkH (t : List (Bytes × Bytes × Bytes × Bytes)) : Alg → Bytes → Bytes := fun a d =>
  match t.find? (fun e => e.1 == d) with
  | some (_, s, m, c) => (match a with | .sha256 => s | .md5 => m | .crc32 => c | .none => [])
  | none => LfsEnvelope.ascii "?no-hash-supplied?"

partial def parseHeaders : Nat → List String → Option (List Header × List String)
  | 0, ws => some ([], ws)
  | n + 1, k :: v :: ws => do
    let k ← fromHex k
    let v ← tokB v
    let (hs, rest) ← parseHeaders n ws
    pure (⟨k, v⟩ :: hs, rest)
  | _, _ => none

partial def parseRecords : List String → Option (List Record × List String)
  | "R" :: a :: ts :: off :: k :: v :: nh :: ws => do
    let (hs, rest) ← parseHeaders (← nh.toNat?) ws
    let r : Record := ⟨← a.toInt?, ← ts.toInt?, ← off.toInt?, ← tokB k, ← tokB v, hs⟩
    let (rs, rest') ← parseRecords rest
    pure (r :: rs, rest')
  | ws => some ([], ws)

partial def parseBatches : List String → Option (List Batch × List String)
  | "B" :: c :: n :: ws => do
    let (rs, rest) ← parseRecords ws
    let (bs, rest') ← parseBatches rest
    pure (⟨← c.toNat?, ← n.toInt?, rs⟩ :: bs, rest')
  | ws => some ([], ws)

partial def parsePartitions : List String → Option (List Partition × List String)
  | "P" :: n :: ws => do
    let (bs, rest) ← parseBatches ws
    let (ps, rest') ← parsePartitions rest
    pure ((← n.toInt?, bs) :: ps, rest')
  | ws => some ([], ws)

partial def parseTopics : List String → Option (List Topic)
  | [] => some []
  | "T" :: t :: ws => do
    let (ps, rest) ← parsePartitions ws
    let ts ← parseTopics rest
    pure ((← fromHex t, ps) :: ts)
  | _ => none

def showHeaders (hs : List Header) : String :=
  if hs.isEmpty then "-" else ";".intercalate (hs.map fun h => toHex h.key ++ ":" ++ showB h.value)

def showOH (m : List (Bytes × Bytes)) : String :=
  let sorted := LfsEnvelope.sortKV m
  if sorted.isEmpty then "-" else "/".intercalate (sorted.map fun p => toHex p.1 ++ ":" ++ toHex p.2)

def showVal (s3 : S3) (orig : Option Record) : Val → String
  | .raw v => "RAW:" ++ showB v
  | .env e =>
    let origPayload := orig.map (fun r => orEmpty r.value)
    let isOrig := (s3.getD e.objKey none) == origPayload && origPayload.isSome
    let ck := match e.ckOf with
      | none => "none"
      | some d => toString (some d == origPayload)
    s!"ENV:key={e.objKey},size={e.size},orig={isOrig},sha={some e.shaOf == origPayload},alg={e.alg.name},ck={ck},ct={toHex e.contentType},oh={showOH e.originalHeaders},valid=true"

def showRecord (s3 : S3) (orig : Option Record) (o : OutRecord) : String :=
  s!" R {o.attrs} {o.tsDelta} {o.offDelta} {showB o.key} {showVal s3 orig o.value} {showHeaders o.headers}"

def showBatch (s3 : S3) (inp : Batch) (o : OutBatch) : String :=
  let origs : List (Option Record) := inp.records.map some ++ List.replicate o.records.length none
  s!" B mod={if o.modified then 1 else 0} codec={o.codec} n={o.numRecords}" ++
    String.join ((o.records.zip origs).map fun p => showRecord s3 p.2 p.1)

def showPartition (s3 : S3) (inp : Partition) (o : Int × List OutBatch) : String :=
  s!" P {o.1}" ++ String.join ((o.2.zip inp.2).map fun p => showBatch s3 p.2 p.1)

def showTopic (s3 : S3) (inp : Topic) (o : Bytes × List (Int × List OutBatch)) : String :=
  s!" T {toHex o.1}" ++ String.join ((o.2.zip inp.2).map fun p => showPartition s3 p.2 p.1)

def stepLine (_ : Unit) (ws0 : List String) : Unit × String :=
  let ws := ws0.takeWhile (· ≠ "|")
  let H := mkH (table ((ws0.dropWhile (· ≠ "|")).drop 1))
  match ws with
  | "rewrite" :: mb :: alg :: failAt :: failDel :: rest =>
    match mb.toInt?, fromHex alg, failAt.toInt?, parseTopics rest with
    | some mb, some alg, some failAt, some req =>
      let cfg : LfsRewrite.Cfg := ⟨mb, alg, if failAt < 0 then none else some failAt.toNat, failDel == "1"⟩
      match rewriteRequest H cfg req with
      | none => ((), "err")
      | some (s3, out) => ((), "ok" ++ String.join ((out.zip req).map fun p => showTopic s3 p.2 p.1))
    | _, _, _, _ => ((), "bad-op")
  | "encrec" :: rest =>
    match parseRecords rest with
    | some ([r], []) => ((), "encrec " ++ toHex (encodeRecord r))
    | _ => ((), "bad-op")
  | _ => ((), "bad-op")

def main : IO Unit := runLines () stepLine
