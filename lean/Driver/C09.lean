import KafVerif.Model.Cache
import KafVerif.Prelude.Driver
open KafVerif KafVerif.Cache

def dump (c : Cache) : String :=
  s!"size={c.size} lru={joinWith "," (c.lru.map fun e => toString e.1)} stable={stableB c}"

def stepLine (c : Cache) (ws : List String) : Cache × String :=
  match ws with
  | ["new", n] => match n.toInt? with
    | some k => (new k, s!"new cap={(new k).capacity}")
    | none => (c, "bad-op")
  | ["set", k, hx] => match k.toNat?, fromHex hx with
    | some k, some d => let c' := set c k d; (c', "set " ++ dump c')
    | _, _ => (c, "bad-op")
  | ["get", k] => match k.toNat? with
    | some k =>
      let (c', r) := get c k
      (c', (match r with | some d => s!"hit {toHex d} " | none => "miss ") ++ dump c')
    | none => (c, "bad-op")
  | _ => (c, "bad-op")

def main : IO Unit := runLines (new 1) stepLine
