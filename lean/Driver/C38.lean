import KafVerif.Model.ConsoleAuth
import KafVerif.Gen.C38Routes
import KafVerif.Prelude.Driver
open KafVerif KafVerif.Console

structure DState where
  auth : Bool            -- "auth" mode prints the state dump (the mux harness cannot see inside NewMux)
  ready : Bool
  s : State

def parseCookie (s : State) (w : String) : Option Nat :=
  if w.startsWith "junk" then (w.drop 4).toNat?.map (· + 2000000)
  else if w.startsWith "t" then
    match (w.drop 1).toNat? with
    | some i => if i < s.next then some i else some (1000000 + i)
    | none => none
  else none

def parseCred : String → Cred
  | "ok" => .ok
  | "empty" => .empty
  | _ => .bad

def dumpS (d : DState) (s : State) : String := if d.auth then s!" sessions={s.sessions.length}" else ""
def dumpL (d : DState) (s : State) (ip : Nat) : String :=
  if d.auth then s!" sessions={s.sessions.length} hits={(hitsOf s.hits ip).length}" else ""

def guardStr : Guard → String
  | .disabled => "disabled"
  | .unauth => "unauth"
  | .served => "served"

def stepLine (d : DState) (ws : List String) : DState × String :=
  match ws with
  | ["new", mode, en, ttl, lim, win] =>
    match ttl.toNat?, lim.toNat?, win.toNat? with
    | some ttl, some lim, some win =>
      let off := lim == 0 || win == 0
      let cfg : Config := { enabled := en == "1", ttl := ttl, limit := if off then 0 else lim, window := if off then 0 else win }
      let lim' := if mode == "mux" && off then 0 else lim
      let win' := if mode == "mux" && off then 0 else win
      ({ auth := mode == "auth", ready := true, s := init cfg },
        s!"new enabled={cfg.enabled} ttl={ttl} limit={lim'} window={win'}")
    | _, _, _ => (d, "bad-op")
  | _ =>
  if !d.ready then (d, "bad-op") else
  let s := d.s
  match ws with
  | ["tick", n] => match n.toNat? with
    | some n => if d.auth then ({ d with s := step s (.tick n) }, "tick") else (d, "bad-op")
    | none => (d, "bad-op")
  | ["login", ip, _port, method, payload, u, p] => match ip.toNat? with
    | some ip =>
      let (s', o) := login s ip (method == "POST") (payload == "ok") (parseCred u) (parseCred p)
      let cls := match o with
        | .method => "method" | .disabled => "disabled" | .limited => "limited"
        | .badPayload => "badpayload" | .denied => "denied"
        | .ok tok =>
          -- the STORED expiry of the fresh session relative to the login instant (harness: `exp=`)
          let e := if !d.auth then "" else
            match lookup s'.sessions tok with
            | some x => if x == s.now + s.cfg.ttl then " exp=ok" else if s.now + s.cfg.ttl < x then " exp=late" else " exp=early"
            | none => " exp=missing"
          s!"ok tok={tok}" ++ e
      ({ d with s := s' }, "login " ++ cls ++ dumpL d s' ip)
    | none => (d, "bad-op")
  | ["logout", method, c] =>
    let (s', ok) := logout s (method == "POST") (parseCookie s c)
    ({ d with s := s' }, "logout " ++ (if ok then "ok" else "method") ++ dumpS d s')
  | ["preq", c] =>
    let (s', g) := guard s (parseCookie s c)
    ({ d with s := s' }, "preq " ++ guardStr g ++ dumpS d s')
  | ["phase", n] => match n.toNat? with
    | some n => if d.auth && n < 1000 then (d, "phase") else (d, "bad-op")   -- real-time phase only: no model time passes
    | none => (d, "bad-op")
  | ["await", c] =>
    -- the harness lets the last session's ttl really elapse: `tick (ttl+1)` then the request
    if !d.auth then (d, "bad-op") else
    let ck := parseCookie s c
    let (s', g) := guard (step s (.tick (s.cfg.ttl + 1))) ck
    ({ d with s := s' }, "await " ++ guardStr g ++ dumpS d s')
  | ["sess", c] =>
    let (s', a) := sessionInfo s (parseCookie s c)
    ({ d with s := s' }, s!"sess {a}" ++ dumpS d s')
  | ["req", _method, path, c] =>
    if d.auth then (d, "bad-op") else
    let (s', o) := muxRequest KafVerif.Gen.C38.routes s path.toList (parseCookie s c)
    let r := match o with
      | .notFound => "notfound" | .redirect => "redirect" | .open_ => "open" | .guarded g => guardStr g
    ({ d with s := s' }, "req " ++ r)
  | _ => (d, "bad-op")

def main : IO Unit := runLines ({ auth := true, ready := false, s := init ⟨false, 0, 0, 0⟩ } : DState) stepLine
