import KafVerif.Model.Acl
import KafVerif.Model.SqlAcl
import KafVerif.Prelude.Driver
open KafVerif KafVerif.GoStr

/-! Line-protocol driver for C23 (broker ACL + SQL proxy ACL).  See checks/C23.py for the ops. -/

structure St where
  cfg : Acl.Config := { enabled := true, defaultPolicy := [], principals := [] }
  sql : SqlAcl.ACL := { allow := [], deny := [] }
  old : Bool := false       -- `mode old` evaluates the pre-fix NewAuthorizer

def bit (b : Bool) : String := if b then "1" else "0"

def addRule (c : Acl.Config) (isAllow : Bool) (r : Acl.Rule) : Option Acl.Config :=
  match c.principals.reverse with
  | [] => none
  | e :: rest =>
    let e' := if isAllow then { e with allow := e.allow ++ [r] } else { e with deny := e.deny ++ [r] }
    some { c with principals := (e' :: rest).reverse }

def stepLine (s : St) (ws : List String) : St × String :=
  match ws with
  | ["mode", m] => ({ s with old := m == "old" }, "ok")
  | ["cfg", en, dp] => match runesOfHex dp with
    | some d => ({ s with cfg := { enabled := en == "1", defaultPolicy := d, principals := [] } }, "ok")
    | none => (s, "bad-op")
  | ["pr", n] => match runesOfHex n with
    | some n => ({ s with cfg := { s.cfg with principals := s.cfg.principals ++ [{ name := n, allow := [], deny := [] }] } }, "ok")
    | none => (s, "bad-op")
  | [k, a, r, n] =>
    if k == "al" || k == "dn" then
      match runesOfHex a, runesOfHex r, runesOfHex n with
      | some a, some r, some n =>
        match addRule s.cfg (k == "al") { action := a, resource := r, name := n } with
        | some c => ({ s with cfg := c }, "ok")
        | none => (s, "bad-op")
      | _, _, _ => (s, "bad-op")
    else (s, "bad-op")
  | ["rq", p, a, r, n] =>
    match runesOfHex p, runesOfHex a, runesOfHex r, runesOfHex n with
    | some p, some a, some r, some n =>
      let req : Acl.Req := { principal := p, action := a, resource := r, name := n }
      let res := if s.old then Acl.allowsOld s.cfg req else Acl.allows s.cfg req
      let bits := s.cfg.principals.flatMap fun e =>
        (e.allow.map fun r => bit (Acl.matchesRule r req)) ++ (e.deny.map fun r => bit (Acl.matchesRule r req))
      (s, (if res then "allow" else "deny") ++ " m=" ++ String.join bits)
    | _, _, _, _ => (s, "bad-op")
  | ["sacl"] => ({ s with sql := { allow := [], deny := [] } }, "ok")
  | ["sa", p] => match runesOfHex p with
    | some p => ({ s with sql := { s.sql with allow := s.sql.allow ++ [p] } }, "ok")
    | none => (s, "bad-op")
  | ["sd", p] => match runesOfHex p with
    | some p => ({ s with sql := { s.sql with deny := s.sql.deny ++ [p] } }, "ok")
    | none => (s, "bad-op")
  | ["st", t] => match runesOfHex t with
    | some t =>
      let pm := SqlAcl.globMatch
      let res := SqlAcl.allows pm s.sql t
      let bits := (s.sql.allow.map fun p => bit (SqlAcl.patAccepts pm p t)) ++ ["/"] ++
                  (s.sql.deny.map fun p => bit (SqlAcl.patAccepts pm p t))
      (s, (if res then "allow" else "deny") ++ " show=" ++ bit (SqlAcl.allowShowTopics pm s.sql) ++ " m=" ++ String.join bits)
    | none => (s, "bad-op")
  | _ => (s, "bad-op")

def main : IO Unit := runLines ({} : St) stepLine
