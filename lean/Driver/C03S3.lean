import KafVerif.Model.S3Chunks
import KafVerif.Prelude.Driver
/-!
Model driver of the C03 / C06 / C07 lower seam (read side of the S3 clients over a chunking / faulting endpoint): the
op lines reset / obj / objs / get / list / fetch of `harness/C03s3/root/cmd/verif_c03s3/main.go` (and `fetch` = the
processors' `getObject`), same result lines.  Driver code: nothing is proved about this file.
-/
open KafVerif KafVerif.S3Chunks
open KafVerif.S3Aws (Api Err Ret store lookup)

def parseErr (s : String) : Option Err :=
  match s with
  | "nsb" => some .nsb | "nf" => some .nf | "slow" => some .slow | "owned" => some .owned | "exists" => some .exists_
  | "nokey" => some .nokey | "badrange" => some .badrange
  | _ => none

def parsePart (sp : BodySpec) (p : String) : Option BodySpec :=
  if p == "cl=none" then some { sp with cl := .none }
  else if p == "cl=exact" then some { sp with cl := .exact }
  else if p.startsWith "cl=+" then (p.drop 4).toString.toNat?.bind fun k => if k > 0 then some { sp with cl := .over k } else none
  else if p.startsWith "ch=" then ((p.drop 3).toString.splitOn "/").mapM (fun (x : String) => x.toNat?) |>.map fun xs => { sp with sizes := sp.sizes ++ xs }
  else if p.startsWith "cut=" && p.length > 5 then
    let kind := (p.drop (p.length - 1)).toString
    ((p.drop 4).toString.dropEnd 1).toString.toNat?.map fun j => { sp with cut := some (j, kind == "r") }
  else if p == "ew" then some { sp with ew := true }
  else none

def parseGetTok (s : String) : Option GetTok :=
  if s == "." then some .nat
  else if s == "b" || s.startsWith "b:" then
    ((s.splitOn ":").drop 1).foldlM parsePart ({} : BodySpec) |>.map GetTok.body
  else (parseErr s).map GetTok.fail

def parseListTok (s : String) : Option ListTok :=
  if s == "." then some .nat
  else if s.startsWith "p" && (s.drop 1).toString.isNat then (s.drop 1).toString.toNat?.map ListTok.page
  else (parseErr s).map ListTok.fail

def parseScript {α} (f : String → Option α) (s : String) : Option (List α) :=
  if s == "-" then some [] else (s.splitOn ",").mapM f

def showCalls (cs : List String) : String := if cs.isEmpty then "-" else joinWith "," cs

def pad20 (n : Nat) : String :=
  let d := toString n
  String.ofList (List.replicate (20 - d.length) '0') ++ d

def strictlyIncreasing : List String → Bool
  | a :: b :: t => decide (a < b) && strictlyIncreasing (b :: t)
  | _ => true

def keyDigest (ks : List (String × Nat)) : String :=
  if ks.isEmpty then "-"
  else if ks.length ≤ 12 then joinWith "," (ks.map fun k => s!"{k.1}:{k.2}")
  else
    let keys := ks.map (·.1)
    s!"{keys.head!}..{keys.getLast!};inc={strictlyIncreasing keys};bytes={(ks.map (·.2)).foldl (· + ·) 0}"

def parseRange (rng : String) : Option (Option (Int × Int)) :=
  if rng == "-" then some none else
  match rng.splitOn ":" with
  | [x, y] => match x.toInt?, y.toInt? with
    | some x, some y => some (some (x, y))
    | _, _ => none
  | _ => none

def stepC (a : Api) (ws : List String) : Api × String :=
  match ws with
  | ["reset", b] => ({ bucket := b == "1", objs := [] }, "reset")
  | ["obj", key, hx] =>
    match fromHex hx with
    | some body => ({ a with objs := store a.objs key body }, "obj")
    | none => (a, "bad-op")
  | ["objs", pfx, first, count, size] =>
    match first.toNat?, count.toNat?, size.toNat? with
    | some f, some c, some sz =>
      -- the generator uses fresh keys here
      let new := (List.range c).map fun i => (s!"{pfx}segment-{pad20 (f + i)}.kfs", List.replicate sz (UInt8.ofNat (f + i)))
      ({ a with objs := a.objs ++ new }, "objs")
    | _, _, _ => (a, "bad-op")
  | ["get", kind, key, rng, sc] =>
    match parseScript parseGetTok sc, parseRange rng with
    | some script, some r =>
      let s : St := { api := a, gets := script }
      let (s, res) := if kind == "seg" then downloadSegment s key r else downloadIndex s key
      let (rs, ds) := match res with
        | .data d => ("nil", toHex d)
        | .notfound => ("notfound", "-")
        | .err => ("err", "-")
      (s.api, s!"get ret={rs} data={ds} calls={showCalls s.calls}")
    | _, _ => (a, "bad-op")
  | ["fetch", key, sc] =>
    match parseScript parseGetTok sc with
    | some script =>
      let (s, res) := fetchObject { api := a, gets := script } key
      match res with
      | some d => (s.api, s!"fetch ret=nil data={toHex d}")
      | none => (s.api, "fetch ret=err data=-")
    | none => (a, "bad-op")
  | ["list", pfx, sc] =>
    match parseScript parseListTok sc with
    | some script =>
      let (s, r) := listSegments { api := a, lists := script } pfx
      match r with
      | some ks => (s.api, s!"list ret=nil n={ks.length} keys={keyDigest ks} calls={showCalls s.calls}")
      | none => (s.api, s!"list ret=err n=0 keys=- calls={showCalls s.calls}")
    | none => (a, "bad-op")
  | _ => (a, "bad-op")

def main : IO Unit := runLines ({ bucket := true, objs := [] } : Api) stepC
