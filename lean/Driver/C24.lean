import KafVerif.Model.AclGate
import KafVerif.Model.AclSession
import KafVerif.Gen.C24Guards
import KafVerif.Prelude.Driver
open KafVerif KafVerif.AclGate KafVerif.GoStr

/-- item as sent by the check: `name:allowed:exists` (name = small id) -/
def parseItem (s : String) : Option (Item × Bool) :=
  match s.splitOn ":" with
  | [n, a, e] => do pure ({ name := (← n.toNat?), allowed := a == "1" }, e == "1")
  | _ => none

def bits (l : List Bool) : String := joinWith "," (l.map fun b => if b then "1" else "0")

/-- driver state: the ACL configuration being assembled and the session model's handler state
(`AclSession.State`: authorizer + denial log + counters), ONE per `open` -/
structure St where
  cfg : Acl.Config := { enabled := true, defaultPolicy := [], principals := [] }
  sess : AclSession.State := AclSession.init { enabled := true, defaultPolicy := [], principals := [] }

def addRule (c : Acl.Config) (isAllow : Bool) (r : Acl.Rule) : Option Acl.Config :=
  match c.principals.reverse with
  | [] => none
  | e :: rest =>
    let e' := if isAllow then { e with allow := e.allow ++ [r] } else { e with deny := e.deny ++ [r] }
    some { c with principals := (e' :: rest).reverse }

def stepLine (u : St) (ws : List String) : St × String :=
  match ws with
  -- session model: cfg / pr / al / dn assemble the ACL configuration, `open` builds the handler (newHandler),
  -- `rq <principal> <action> <resource> <name>` (hex) is ONE h.allow* call on that handler: the decision of
  -- `AclSession.step` in the handler's current state, and the pure `Acl.allows cfg` next to it
  | ["cfg", dp] => match runesOfHex dp with
    | some d => ({ u with cfg := { enabled := true, defaultPolicy := d, principals := [] } }, "ok")
    | none => (u, "bad-op")
  | ["pr", n] => match runesOfHex n with
    | some n => ({ u with cfg := { u.cfg with principals := u.cfg.principals ++ [{ name := n, allow := [], deny := [] }] } }, "ok")
    | none => (u, "bad-op")
  | ["open"] => ({ u with sess := AclSession.init u.cfg }, "ok")
  | ["rq", p, a, r, n] =>
    match runesOfHex p, runesOfHex a, runesOfHex r, runesOfHex n with
    | some p, some a, some r, some n =>
      let req : Acl.Req := { principal := p, action := a, resource := r, name := n }
      let o := AclSession.step u.sess { req := req, dt := 1 }
      ({ u with sess := o.1 }, s!"d={if o.2 then 1 else 0} pure={if Acl.allows u.cfg req then 1 else 0} denied={o.1.deniedTotal}")
    | _, _, _, _ => (u, "bad-op")
  -- do <key> <autocreate> <items…> : which items the gate (as extracted from the CURRENT source) answers with an
  -- authorization error
  | "do" :: key :: auto :: rest =>
    match key.toInt?, rest.mapM parseItem with
    | some k, some its =>
      match KafVerif.Gen.C24.arms.find? (·.key == k) with
      | none => (u, "no-arm")
      | some arm =>
        let g := granOf arm
        let items := its.map (·.1)
        let outs := (handle g (· + 1) [] items).2
        let deny := denyBits outs
        -- Metadata: the gate guards only the auto-creation; an existing topic (or auto-create off) is described
        let deny := if k == 3 then (List.zip deny its).map (fun (d, it) => d && !it.2 && auto == "1") else deny
        (u, s!"deny={bits deny} gran={repr g}")
    | _, _ => (u, "bad-op")
  | [k, a, r, n] =>
    if k == "al" || k == "dn" then
      match runesOfHex a, runesOfHex r, runesOfHex n with
      | some a, some r, some n =>
        match addRule u.cfg (k == "al") { action := a, resource := r, name := n } with
        | some c => ({ u with cfg := c }, "ok")
        | none => (u, "bad-op")
      | _, _, _ => (u, "bad-op")
    else (u, "bad-op")
  | _ => (u, "bad-op")

def main : IO Unit := runLines ({} : St) stepLine
