import KafVerif.Model.AclGate
import KafVerif.Model.AclSession
import KafVerif.Model.AclConn
import KafVerif.Gen.C24Guards
import KafVerif.Prelude.Driver
open KafVerif KafVerif.AclGate KafVerif.GoStr

/-- item as sent by the check: `name:allowed:exists` (name = small id) -/
def parseItem (s : String) : Option (Item × Bool) :=
  match s.splitOn ":" with
  | [n, a, e] => do pure ({ name := (← n.toNat?), allowed := a == "1" }, e == "1")
  | _ => none

def bits (l : List Bool) : String := joinWith "," (l.map fun b => if b then "1" else "0")

/-- driver state: the ACL configuration being assembled and the session model's handler state
(`AclSession.State`: authorizer + denial log + counters), ONE per `open` -/
structure St where
  cfg : Acl.Config := { enabled := true, defaultPolicy := [], principals := [] }
  sess : AclSession.State := AclSession.init { enabled := true, defaultPolicy := [], principals := [] }
  -- connection model (AclConn): the broker's principal-source configuration, the immutable attributes of the connections
  -- opened under it, and what `Server.handleConnection` attached to each (one slot per `conn` line)
  cc : AclConn.ConnCfg := { source := [], proxyProtocol := false }
  attrs : List AclConn.ConnAttrs := []
  conns : List AclConn.ConnResult := []

def hx (s : List Char) : String := if s = [] then "-" else hexOfRunes s

def parseCid (s : String) : Option (Option (List Char)) :=
  if s == "~" then some none else (runesOfHex s).map some

def addRule (c : Acl.Config) (isAllow : Bool) (r : Acl.Rule) : Option Acl.Config :=
  match c.principals.reverse with
  | [] => none
  | e :: rest =>
    let e' := if isAllow then { e with allow := e.allow ++ [r] } else { e with deny := e.deny ++ [r] }
    some { c with principals := (e' :: rest).reverse }

def stepLine (u : St) (ws : List String) : St × String :=
  match ws with
  -- session model: cfg / pr / al / dn assemble the ACL configuration, `open` builds the handler (newHandler),
  -- `rq <principal> <action> <resource> <name>` (hex) is ONE h.allow* call on that handler: the decision of
  -- `AclSession.step` in the handler's current state, and the pure `Acl.allows cfg` next to it
  | ["cfg", dp] => match runesOfHex dp with
    | some d => ({ u with cfg := { enabled := true, defaultPolicy := d, principals := [] } }, "ok")
    | none => (u, "bad-op")
  | ["pr", n] => match runesOfHex n with
    | some n => ({ u with cfg := { u.cfg with principals := u.cfg.principals ++ [{ name := n, allow := [], deny := [] }] } }, "ok")
    | none => (u, "bad-op")
  | ["open"] => ({ u with sess := AclSession.init u.cfg }, "ok")
  -- connection stream: `srv <source> <proxy 0|1>` = buildConnContextFunc's configuration; `conn <remote> <kind> <src>` = one
  -- accepted connection (kind: absent | malformed | local | addr = what ReadProxyProtocol finds), answered with what
  -- AclConn.buildConn attaches; `crq <conn index> <client id | ~> <action> <resource> <name>` = ONE h.allow* call of a request
  -- on that connection: AclConn.stepC on (handler state, connection slots)
  | ["srv", src, px] => match runesOfHex src with
    | some s => ({ u with cc := { source := s, proxyProtocol := px == "1" }, attrs := [], conns := [] }, "ok")
    | none => (u, "bad-op")
  | ["conn", remote, kind, src] =>
    match runesOfHex remote, runesOfHex src with
    | some r, some sa =>
      let hdr : Option AclConn.ProxyHdr := match kind with
        | "absent" => some .absent | "malformed" => some .malformed | "local" => some .isLocal | "addr" => some (.addr sa)
        | _ => none
      match hdr with
      | none => (u, "bad-op")
      | some h =>
        let a : AclConn.ConnAttrs := { remoteAddr := r, proxy := h }
        let c := AclConn.buildConn u.cc a
        let out := match c with
          | .refused => "refused"
          | .noContext => "noctx"
          | .ctx i => s!"ctx {hx i.principal} {hx i.remoteAddr} {hx i.proxyAddr}"
        ({ u with attrs := u.attrs ++ [a], conns := u.conns ++ [c] }, out)
    | _, _ => (u, "bad-op")
  | ["crq", idx, cid, a, r, n] =>
    match idx.toNat?, parseCid cid, runesOfHex a, runesOfHex r, runesOfHex n with
    | some i, some cid, some a, some r, some n =>
      match u.attrs[i]? with
      | none => (u, "bad-op")
      | some att =>
        let o := AclConn.stepC (u.sess, u.conns) { conn := i, clientId := cid, action := a, resource := r, name := n, dt := 1 }
        let p := match u.conns[i]? with
          | some c => (AclConn.connStep c cid).2
          | none => []
        let spec := AclConn.principalSpec u.cc att cid
        let pure := Acl.allows u.cfg { principal := spec, action := a, resource := r, name := n }
        match o.2 with
        | none => (u, "refused")
        | some d =>
          ({ u with sess := o.1.1, conns := o.1.2 },
           s!"d={if d then 1 else 0} pure={if pure then 1 else 0} p={hx p} spec={hx spec}")
    | _, _, _, _, _ => (u, "bad-op")
  | ["rq", p, a, r, n] =>
    match runesOfHex p, runesOfHex a, runesOfHex r, runesOfHex n with
    | some p, some a, some r, some n =>
      let req : Acl.Req := { principal := p, action := a, resource := r, name := n }
      let o := AclSession.step u.sess { req := req, dt := 1 }
      ({ u with sess := o.1 }, s!"d={if o.2 then 1 else 0} pure={if Acl.allows u.cfg req then 1 else 0} denied={o.1.deniedTotal}")
    | _, _, _, _ => (u, "bad-op")
  -- do <key> <autocreate> <items…> : which items the gate (as extracted from the CURRENT source) answers with an
  -- authorization error
  | "do" :: key :: auto :: rest =>
    match key.toInt?, rest.mapM parseItem with
    | some k, some its =>
      match KafVerif.Gen.C24.arms.find? (·.key == k) with
      | none => (u, "no-arm")
      | some arm =>
        let g := granOf arm
        let items := its.map (·.1)
        let outs := (handle g (· + 1) [] items).2
        let deny := denyBits outs
        -- Metadata: the gate guards only the auto-creation; an existing topic (or auto-create off) is described
        let deny := if k == 3 then (List.zip deny its).map (fun (d, it) => d && !it.2 && auto == "1") else deny
        (u, s!"deny={bits deny} gran={repr g}")
    | _, _ => (u, "bad-op")
  | [k, a, r, n] =>
    if k == "al" || k == "dn" then
      match runesOfHex a, runesOfHex r, runesOfHex n with
      | some a, some r, some n =>
        match addRule u.cfg (k == "al") { action := a, resource := r, name := n } with
        | some c => ({ u with cfg := c }, "ok")
        | none => (u, "bad-op")
      | _, _, _ => (u, "bad-op")
    else (u, "bad-op")
  | _ => (u, "bad-op")

def main : IO Unit := runLines ({} : St) stepLine
