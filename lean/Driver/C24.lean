import KafVerif.Model.AclGate
import KafVerif.Gen.C24Guards
import KafVerif.Prelude.Driver
open KafVerif KafVerif.AclGate

/-- item as sent by the check: `name:allowed:exists` (name = small id) -/
def parseItem (s : String) : Option (Item × Bool) :=
  match s.splitOn ":" with
  | [n, a, e] => do pure ({ name := (← n.toNat?), allowed := a == "1" }, e == "1")
  | _ => none

def bits (l : List Bool) : String := joinWith "," (l.map fun b => if b then "1" else "0")

def stepLine (u : Unit) (ws : List String) : Unit × String :=
  match ws with
  -- do <key> <autocreate> <items…> : which items the gate (as extracted from the CURRENT source) answers with an
  -- authorization error
  | "do" :: key :: auto :: rest =>
    match key.toInt?, rest.mapM parseItem with
    | some k, some its =>
      match KafVerif.Gen.C24.arms.find? (·.key == k) with
      | none => (u, "no-arm")
      | some arm =>
        let g := granOf arm
        let items := its.map (·.1)
        let outs := (handle g (· + 1) [] items).2
        let deny := denyBits outs
        -- Metadata: the gate guards only the auto-creation; an existing topic (or auto-create off) is described
        let deny := if k == 3 then (List.zip deny its).map (fun (d, it) => d && !it.2 && auto == "1") else deny
        (u, s!"deny={bits deny} gran={repr g}")
    | _, _ => (u, "bad-op")
  | _ => (u, "bad-op")

def main : IO Unit := runLines () stepLine
