import KafVerif.Model.Group.Coordinator
import KafVerif.Prelude.Driver
/-!
Line-protocol driver of the group-coordinator model (shared by C12 C13 C14 C15 C43 C16).
Same op lines and the same canonical result lines as harness/C12/root/cmd/verif_c12/main.go.
Naming (`m<k>` = k-th member created in this history, `@` = the generation last reported to
that member in a join reply) is resolved here, not in the model.
-/
open KafVerif KafVerif.Group

structure DS where
  v : Variant := {}
  s : State := init
  names : List (Nat × Nat) := []        -- member key ↦ k   (m<k>)
  byName : List (Nat × Nat) := []       -- k ↦ member key
  created : Nat := 0
  lastGen : List (Nat × Nat) := []      -- k ↦ generation of the last join reply
  clients : List (Nat × Nat) := []      -- client i (token c<i>) ↦ member key of its last join reply
  keysSeen : List (Nat × Nat × Int) := []
  groupsSeen : List Nat := []

def splitOn1 (s : String) (sep : String) : List String := (s.splitOn sep).filter (· ≠ "")

def natList (s : String) : List Nat :=
  if s = "-" then [] else (splitOn1 s ",").filterMap String.toNat?

def showNats (l : List Nat) : String := if l.isEmpty then "-" else joinWith "," (l.map toString)

def mName (d : DS) (key : Nat) : String :=
  if key = 0 then "-" else
  match KafVerif.Group.lookup d.names key with
  | some k => s!"m{k}"
  | none => s!"?{key}"

/-- member token → (k, key); unknown names get a key that is never a member -/
def mKey (d : DS) (tok : String) : Nat × Nat :=
  if tok = "-" then (0, 0) else
  match (tok.drop 1).toString.toNat? with
  | some k =>
    if tok.startsWith "c" then
      let key := (KafVerif.Group.lookup d.clients k).getD 0
      ((KafVerif.Group.lookup d.names key).getD 0, key)
    else if tok.startsWith "x" then (0, 2000000 + k)
    else match KafVerif.Group.lookup d.byName k with
      | some key => (k, key)
      | none => (0, 1000000 + k)
  | none => (0, 0)

def genOf (d : DS) (k : Nat) (tok : String) : Int :=
  let base := (KafVerif.Group.lookup d.lastGen k).getD 0
  if tok = "@" then base
  else if tok = "@+1" then base + 1
  else if tok = "@-1" then ((base - 1 : Nat) : Int)
  else tok.toInt?.getD 0

def phaseStr : Phase → String
  | .empty => "empty" | .preparing => "preparing" | .completing => "completing"
  | .stable => "stable" | .dead => "dead"

def showAsg (a : Asg) : String :=
  if a.isEmpty then "nil" else joinWith "/" (a.map fun e => s!"{e.1}={showNats e.2}")

def secs (ms : Int) : String := toString (ms / 1000)

def showAge (d : DS) (t : Nat) : String :=
  if t = 0 then "zero" else secs ((d.s.clock : Int) - t)

def showGroup (d : DS) (g : Nat) (st : Group) : String :=
  let mem := st.members.map fun e =>
    s!"{mName d e.1}(t={showNats e.2.topics} s={e.2.session} age={showAge d e.2.lastHb} jg={e.2.joinGen})"
  let asg := st.asg.map fun e => s!"{mName d e.1}:{showAsg e.2}"
  let dl := if st.deadline = 0 then "-" else secs ((st.deadline : Int) - d.s.clock)
  s!"G{g}" ++ "{" ++ s!"ph={phaseStr st.phase} gen={st.gen} ld={mName d st.leader} pn={st.protoName} pt={st.protoType} rt={st.rebTimeout} dl={dl} mem=[{joinWith ";" mem}] asg=[{joinWith ";" asg}]" ++ "}"

def showPGroup (d : DS) (g : Nat) (p : PGroup) : String :=
  let mem := p.members.map fun e =>
    s!"{mName d e.1}(t={showNats e.2.subs} s={e.2.sessionMs} age={showAge d e.2.hbAt} asg={showAsg e.2.asg})"
  s!"P{g}" ++ "{" ++ s!"st={phaseStr p.state} gen={p.gen} ld={mName d p.leader} pn={p.protoName} pt={p.protoType} rt={p.rebTimeoutMs} mem=[{joinWith ";" mem}]" ++ "}"

def dump (d : DS) : String :=
  let gs := d.s.groups.map fun e => showGroup d e.1 e.2
  let ps := d.s.persisted.map fun e => showPGroup d e.1 e.2
  let os := d.keysSeen.map fun k =>
    let r := (getOffset d.s.offsets k).getD (0, 0)
    s!"{k.1}:{k.2.1}:{k.2.2}={r.1}/{r.2}"
  joinWith " " (gs ++ ps ++ [s!"O[{joinWith "," os}]"])

def showReply (d : DS) : Reply → String
  | .goErr => "goerr"
  | .join code gen leader member proto members =>
    let ms := members.map fun e => s!"{mName d e.1}:{showNats e.2}"
    s!"join code={code} gen={gen} ld={mName d leader} me={mName d member} pn={proto} mem=[{joinWith ";" ms}]"
  | .sync code asg => s!"sync code={code} asg={showAsg asg}"
  | .code c => s!"code={c}"
  | .commit codes => "commit " ++ joinWith "," (codes.map fun e => s!"{e.1}:{e.2.1}={e.2.2}")
  | .fetch rows => "fetch " ++ joinWith "," (rows.map fun e => s!"{e.1}:{e.2.1}={e.2.2.1}/{e.2.2.2.1}/{e.2.2.2.2}")
  | .unit => "ok"

def parseCommitParts (s : String) : List (Nat × Int × Int × Nat) :=
  (splitOn1 s ",").filterMap fun e =>
    match e.splitOn ":" with
    | [t, p, o, m] => match t.toNat?, p.toInt?, o.toInt?, m.toNat? with
      | some t, some p, some o, some m => some (t, p, o, m)
      | _, _, _, _ => none
    | _ => none

def parseFetchParts (s : String) : List (Nat × Int) :=
  (splitOn1 s ",").filterMap fun e =>
    match e.splitOn ":" with
    | [t, p] => match t.toNat?, p.toInt? with
      | some t, some p => some (t, p)
      | _, _ => none
    | _ => none

def parseMeta (ws : List String) : List (Nat × List Nat) :=
  ws.filterMap fun w =>
    match w.splitOn "=" with
    | [t, ps] => t.toNat?.map fun t => (t, natList ps)
    | _ => none

def addKeys (seen : List (Nat × Nat × Int)) (ks : List (Nat × Nat × Int)) : List (Nat × Nat × Int) :=
  ks.foldl (fun acc k => if acc.contains k then acc else acc ++ [k]) seen

def parseVariant (ws : List String) : Variant :=
  { c12Old := ws.contains "c12old", c14Old := ws.contains "c14old", c15Old := ws.contains "c15old",
    c43Old := ws.contains "c43old", c16Old := ws.contains "c16old", c13Old := ws.contains "c13old" }

def apply (d : DS) (op : Op) : DS × Reply :=
  let (s, r) := stepV d.v d.s op
  ({ d with s := s }, r)

def noteJoin (d : DS) (tok : String) (r : Reply) : DS :=
  match r with
  | .join _ gen _ member _ _ =>
    let (d, k) := match KafVerif.Group.lookup d.names member with
      | some k => (d, k)
      | none =>
        let k := d.created + 1
        ({ d with created := k, names := (member, k) :: d.names, byName := (k, member) :: d.byName }, k)
    let d := { d with lastGen := (k, gen) :: d.lastGen }
    if tok.startsWith "c" then
      match (tok.drop 1).toString.toNat? with
      | some i => { d with clients := (i, member) :: d.clients }
      | none => d
    else d
  | _ => d

/-- parse one op line into a model op (resolving names); also returns the member token of a join -/
def parseOp (d : DS) (ws : List String) : Option (DS × Op × String) :=
  match ws with
  | "meta" :: rest => some (d, .setMeta (parseMeta rest), "")
  | "join" :: g :: m :: se :: rb :: pt :: proto :: topics :: rest =>
    match g.toNat?, se.toInt?, rb.toInt?, pt.toNat? with
    | some g, some se, some rb, some pt =>
      let (_, key) := mKey d m
      let nk := (rest.head?.bind String.toNat?).getD 0
      let pr : Option (Nat × List Nat) := if proto = "none" then none else some (proto.toNat?.getD 0, natList topics)
      some (d, .join g key se rb pt pr nk, m)
    | _, _, _, _ => none
  | ["sync", g, m, gen] =>
    g.toNat?.map fun g => let (k, key) := mKey d m; (d, .sync g key (genOf d k gen), "")
  | ["hb", g, m, gen] =>
    g.toNat?.map fun g => let (k, key) := mKey d m; (d, .heartbeat g key (genOf d k gen), "")
  | ["leave", g, m] =>
    g.toNat?.map fun g => let (_, key) := mKey d m; (d, .leave g key, "")
  | ["commit", g, m, gen, parts] =>
    g.toNat?.map fun g =>
      let (k, key) := mKey d m
      let ps := parseCommitParts parts
      let d := { d with keysSeen := addKeys d.keysSeen (ps.map fun e => (g, e.1, e.2.1)) }
      (d, .commit g key (genOf d k gen) ps, "")
  | ["fetch", g, parts] =>
    g.toNat?.map fun g =>
      let ps := parseFetchParts parts
      let d := { d with keysSeen := addKeys d.keysSeen (ps.map fun e => (g, e.1, e.2)) }
      (d, .fetch g ps, "")
  | ["tick", ms] => ms.toNat?.map fun ms => (d, .tick ms, "")
  | ["cleanup"] => some (d, .cleanup, "")
  | ["failover"] => some (d, .failover, "")
  | ["load", g] => g.toNat?.map fun g => (d, .load g, "")
  | ["fail", k] => k.toNat?.map fun k => (d, .fail k, "")
  | _ => none

def splitBar (ws : List String) : List String × List String :=
  (ws.takeWhile (· ≠ "|"), (ws.dropWhile (· ≠ "|")).drop 1)

def stepLine (d : DS) (ws : List String) : DS × String :=
  match ws with
  | "reset" :: flags => ({ v := parseVariant flags }, "reset")
  | "race" :: rest =>
    let (cw, ow) := splitBar rest
    match parseOp d ("commit" :: cw) with
    | some (d, .commit g key gen ps, _) =>
      match parseOp d ow with
      | some (d, other, tok) =>
        let (s, r1, r2, between) := raceV d.v d.s g key gen ps other
        let d := { d with s := s }
        let d := noteJoin d tok r2
        let order := if between then "check,other,write" else "commit,other"
        (d, s!"race order={order} {showReply d r1} ; {showReply d r2} || {dump d}")
      | none => (d, "bad-op")
    | _ => (d, "bad-op")
  | "par" :: _gate :: rest =>
    -- two requests in flight, A parked inside a store call while B is issued: every request of the (fixed)
    -- code is one critical section, so B waits — A, then B.  Names and `@` generations of BOTH requests are
    -- resolved before either runs (as the harness does).
    let (aw, bw) := splitBar rest
    match parseOp d aw with
    | some (d1, opA, tokA) =>
      match parseOp d1 bw with
      | some (d2, opB, tokB) =>
        let (d3, rA) := apply d2 opA
        let d3 := noteJoin d3 tokA rA
        let sA := showReply d3 rA
        let (d4, rB) := apply d3 opB
        let d4 := noteJoin d4 tokB rB
        (d4, s!"par order=seq {sA} ; {showReply d4 rB} || {dump d4}")
      | none => (d, "bad-op")
    | none => (d, "bad-op")
  | _ =>
    match parseOp d ws with
    | some (d, op, tok) =>
      let (d, r) := apply d op
      let d := noteJoin d tok r
      (d, showReply d r ++ " || " ++ dump d)
    | none => (d, "bad-op")

def main : IO Unit := runLines ({} : DS) stepLine
