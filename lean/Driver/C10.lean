import KafVerif.Model.ProtoHeader
import KafVerif.Prelude.Driver
open KafVerif KafVerif.ProtoHeader

/-- kmsg flexibility table as sent by the harness: (key, first flexible version). -/
abbrev FlexTab := List (Int × Int)

def flexOf (t : FlexTab) (k v : Int) : Bool :=
  match t.find? (fun e => e.1 == k) with
  | some e => decide (e.2 ≤ v)
  | none => false

def parsePair (s : String) : Option (Int × Int) :=
  match s.splitOn ":" with
  | [a, b] => do pure ((← a.toInt?), (← b.toInt?))
  | _ => none

/-- `tag:hex,tag:hex,…` or `-` -/
def parseTags (s : String) : Option (List (Nat × Bytes)) :=
  if s == "-" then some [] else
  (s.splitOn ",").mapM fun t => match t.splitOn ":" with
    | [a, b] => do pure ((← a.toNat?), (← fromHex b))
    | _ => none

def cidStr : Option Bytes → String
  | none => "null"
  | some b => toHex b

def showHdr (r : GoResult (Header × Bytes)) : String :=
  match r with
  | .ok (h, body) => s!"ok {h.key} {h.ver} {h.corr} cid={cidStr h.clientId} body={toHex body}"
  | .err => "err"
  | .panic => "panic"

def stepLine (t : FlexTab) (ws : List String) : FlexTab × String :=
  match ws with
  | "flex" :: rest =>
    let t' := rest.filterMap parsePair
    (t', s!"flex {t'.length}")
  | ["hdr", hx] => match fromHex hx with
    | some b => (t, showHdr (parseHeader (flexOf t) b))
    | none => (t, "bad-op")
  | ["skip", hx] => match fromHex hx with
    | some b => (t, match skipTagged { buf := b, pos := 0 } with
      | .ok r => s!"ok {r.pos}"
      | .err => "err"
      | .panic => "panic")
    | none => (t, "bad-op")
  | ["frame", hx] => match fromHex hx with
    | some b => (t, match readFrame b with
      | .ok (p, rest) => s!"ok {toHex p} rest={toHex rest}"
      | .err => "err"
      | .panic => "panic")
    | none => (t, "bad-op")
  | ["frames", _, hx] => match fromHex hx with      -- second word = chunking mode (implementation side only)
    | some b =>
      let (ps, left) := readFrames b
      (t, s!"frames n={ps.length} payloads={joinWith "|" (ps.map toHex)} end={if left.isEmpty then "eof" else "err"}")
    | none => (t, "bad-op")
  | ["enc", k, v, c, cid, tags] =>
    -- the encoder of the round-trip theorem (`encodeHeader`), compared with Go's encoding/binary on the other side
    let cid? : Option (Option Bytes) := if cid == "null" then some none else (fromHex cid).map some
    match k.toInt?, v.toInt?, c.toInt?, cid?, parseTags tags with
    | some k, some v, some c, some cid, some tags =>
      (t, "enc " ++ toHex (encodeHeader { key := k, ver := v, corr := c, clientId := cid } (flexOf t k v) tags))
    | _, _, _, _, _ => (t, "bad-op")
  | ["preq", oracle, hx] =>
    -- ParseRequest = header stage + body stage; kmsg's verdict on the body is the parameter `dec` (the harness's `kdec` oracle),
    -- `known` = the keys of the flexibility table (= the keys kmsg.RequestForKey knows)
    match fromHex hx with
    | some b =>
      let known : Int → Bool := fun k => t.any (fun e => e.1 == k)
      let dec : Int → Int → Bytes → Option Unit := fun _ _ _ => if oracle == "ok" then some () else none
      (t, match parseRequest (flexOf t) known dec b with
        | .ok (h, _) => s!"ok {h.key} {h.ver} {h.corr} cid={cidStr h.clientId}"
        | .err => "err"
        | .panic => "panic")
    | none => (t, "bad-op")
  | ["rt", k, v, c, cid, hx] => match k.toInt?, v.toInt?, c.toInt?, fromHex hx with
    | some k, some v, some c, some b =>
      (t, match parseHeader (flexOf t) b with
        | .ok (h, _) => if h.key == k && h.ver == v && h.corr == c && cidStr h.clientId == cid then "rt ok" else "rt mismatch " ++ showHdr (parseHeader (flexOf t) b)
        | .err => "rt err"
        | .panic => "rt panic")
    | _, _, _, _ => (t, "bad-op")
  | _ => (t, "bad-op")

def main : IO Unit := runLines ([] : FlexTab) stepLine
