import KafVerif.Model.SqlFilter
import KafVerif.Prelude.Driver
/-! Line-protocol driver for the SELECT model (C36); same lines as harness/C36/.../verif_c36.
`select` prints the model's answer (`err` or rows) under the line's fault items, through the modelled result
cache; `direct` prints the specification's rows for the same line (faults and cache play no role there). -/
open KafVerif KafVerif.SqlFilter

def optI (s : String) : Option (Option Int) := if s = "-" then some none else s.toInt?.map some

def kvGet (ws : List String) (k : String) : String :=
  match ws.find? (fun w => w.startsWith (k ++ "=")) with
  | some w => (w.drop (k.length + 1)).toString
  | none => "-"

def parseRecs (segIdx : Nat) (part : Int) (s : String) : List Rec :=
  if s = "-" then [] else
  (s.splitOn ",").filterMap fun x =>
    match x.splitOn ":" with
    | [o, t] => match o.toInt?, t.toInt? with
      | some o, some t => some ⟨segIdx, part, o, t⟩
      | _, _ => none
    | _ => none

def showRows (rs : List Rec) : String :=
  if rs.isEmpty then "rows -" else
  "rows " ++ joinWith "," (rs.map fun r => s!"{r.seg}:{r.partition}:{r.offset}:{r.ts}")

/-- the limit/tail resolution at the top of `handleSelect` (DefaultLimit = 1000) -/
def resolve (limitTok tailTok : Option Int) : Nat × Nat :=
  let limit : Int := match limitTok with | some v => v | none => 1000
  let (tailCount, limit) : Int × Int := match tailTok with | some v => (v, v) | none => (0, limit)
  let limit := if limit ≤ 0 then 1000 else limit
  (limit.toNat, tailCount.toNat)

def mkQuery (ws : List String) : Option Query :=
  match ws with
  | _ :: topic :: rest =>
    match topic.toNat?, optI (kvGet rest "part"), optI (kvGet rest "omin"), optI (kvGet rest "omax"),
          optI (kvGet rest "tmin"), optI (kvGet rest "tmax"), optI (kvGet rest "limit"), optI (kvGet rest "tail") with
    | some t, some p, some a, some b, some c, some d, some l, some tl =>
      let (limit, tail) := resolve l tl
      let order := match kvGet rest "order" with | "asc" => some false | "desc" => some true | _ => none
      some ⟨t, p, a, b, c, d, limit, tail, order⟩
    | _, _, _, _, _, _, _, _ => none
  | _ => none

structure DS where
  segs : List SegRef := []
  objs : List Obj := []
  bases : List Int := []     -- base offset of each listed segment (for printing)
  cache : List (String × List Rec) := []   -- result cache of the world's Server (dropped when the world changes)
  tiFaults : List String := []             -- `.kfst` keys whose GetObject fails right now (`s3fault t:<key>`)

/-- `fault=<-|item.item…>`: `l` listing error; `d<i>` / `c<i>` Decode error / context cancellation at listing position i -/
def parseFaults (spec : String) : Option (Bool × List Nat) :=
  if spec = "-" then some (false, []) else
  (spec.splitOn ".").foldl (fun acc it =>
    match acc with
    | none => none
    | some (lf, ds) =>
      if it = "l" then some (true, ds)
      else if it.startsWith "d" || it.startsWith "c" then
        match (it.drop 1).toString.toNat? with
        | some i => some (lf, i :: ds)
        | none => none
      else none) (some (false, []))

def dummyQuery : Query := ⟨0, none, none, none, none, none, 1000, 0, none⟩

def parsePairs (s : String) : List (Int × Int) :=
  if s = "-" then [] else
  (s.splitOn ",").filterMap fun x =>
    match x.splitOn ":" with
    | [o, t] => match o.toInt?, t.toInt? with
      | some o, some t => some (o, t)
      | _, _ => none
    | _ => none

def showOpt (o : Option Int) : String := match o with | some v => toString v | none => "-"

def stepLine' (segs : List SegRef) (ws : List String) : List SegRef × String :=
  match ws with
  | ["reset"] => ([], "reset")
  | ["seg", topic, part, a, b, c, d, lm, recs] =>
    match topic.toNat?, part.toInt?, optI a, optI b, optI c, optI d, optI lm with
    | some t, some p, some a, some b, some c, some d, some lm =>
      (segs ++ [⟨t, p, a, b, c, d, parseRecs segs.length p recs, lm⟩], "seg")
    | _, _, _, _, _, _, _ => (segs, "bad-op")
  | "select" :: _ => match mkQuery ws with
    | some q => (segs, showRows (select q segs))
    | none => (segs, "bad-op")
  | "direct" :: _ => match mkQuery ws with
    | some q => (segs, showRows (direct q segs))
    | none => (segs, "bad-op")
  | _ => (segs, "bad-op")

def stepLine (d : DS) (ws : List String) : DS × String :=
  match ws with
  | ["reset"] => ({}, "reset")
  | ["s3fault", spec] =>
    -- only time-index read faults are modelled (the other S3-level faults are checked by the monitor only)
    let ts := ((spec.splitOn ",").filter (·.startsWith "t:")).map (fun it => (it.drop 2).toString)
    ({ d with tiFaults := ts }, "s3fault")
  | "select" :: _ =>
    match mkQuery ws, parseFaults (kvGet ws "fault") with
    | some _, some (lf, ds) =>
      -- the query text (the cache key) is the line without its fault item; `cacheKey` is ok iff both time
      -- bounds are given and there is no TAIL clause
      let key := joinWith " " (ws.take 10)
      let cacheable := fun (k : String) =>
        let kw := words k
        kvGet kw "tail" = "-" && kvGet kw "tmin" ≠ "-" && kvGet kw "tmax" ≠ "-"
      let qOf := fun (k : String) => (mkQuery (words k)).getD dummyQuery
      let (c, out) := cachedSelect d.segs qOf cacheable d.cache key lf (fun i => ds.contains i)
      ({ d with cache := c }, match out with | some rows => showRows rows | none => "err")
    | _, _ => (d, "bad-op")
  | ["obj", topic, part, base, flags, lm, recs] =>
    match topic.toNat?, part.toInt?, base.toInt?, optI lm with
    | some t, some p, some b, some lm =>
      let complete := flags.contains 'k' && flags.contains 'i' && flags.contains 'm'
      -- an object without an explicit time is listed with the endpoint's default (2024-01-01)
      let o : Obj := ⟨t, p, b, complete, parsePairs recs, some (lm.getD 1704067200000)⟩
      if flags.contains 'k' || flags.contains 'i' then ({ d with objs := d.objs ++ [o], cache := [] }, "obj")
      else ({ d with cache := [] }, "obj")
    | _, _, _, _ => (d, "bad-op")
  | ["list", ti, _, _] =>
    let sorted := sortObjs (d.objs.filter (·.complete))
    let refs := listCompletedT d.objs (fun o =>
      ti = "1" && !(d.tiFaults.contains s!"t{o.topic}/{o.partition}/segment-{o.base}.kfst"))
    let parts := (refs.zip sorted).map fun (r, o) =>
      s!"{r.topic}/{r.partition}/{o.base}/{showOpt r.minOffset}/{showOpt r.maxOffset}/{showOpt r.minTs}/{showOpt r.maxTs}/{showOpt r.lastModified}"
    ({ d with segs := refs, cache := [] }, if parts.isEmpty then "list -" else "list " ++ joinWith ";" parts)
  | "seg" :: _ =>
    let (segs, out) := stepLine' d.segs ws
    ({ d with segs := segs, cache := [] }, out)
  | _ =>
    let (segs, out) := stepLine' d.segs ws
    ({ d with segs := segs }, out)

def main : IO Unit := runLines ({} : DS) stepLine
