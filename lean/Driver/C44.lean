import KafVerif.Model.DualS3
import KafVerif.Prelude.Driver
open KafVerif KafVerif.DualS3

/-! Line-protocol driver for C44 (dual S3 client over two in-memory buckets). -/

def showRes : GoResult Bytes → String
  | .ok d => "ok " ++ toHex d
  | .err => "err"
  | .panic => "panic"

def showCalls (cs : List (Bool × Method)) : String :=
  " calls=" ++ joinWith "," (cs.map fun c => (if c.1 then "r." else "w.") ++ c.2.name)

def onOff (s : String) : Bool := s == "1"

def showUnit : GoResult Unit → String
  | .ok _ => "ok"
  | .err => "err"
  | .panic => "panic"

def showListing : GoResult (List (Nat × Nat)) → String
  | .ok l => "list " ++ joinWith "," ((l.mergeSort (fun a b => a.1 ≤ b.1)).map fun e => s!"{e.1}:{e.2}")
  | .err => "err"
  | .panic => "panic"

def showOut : Out → String
  | .unit r => showUnit r
  | .listing r => showListing r
  | .env => "ok"

/-- the non-download methods a fault can be injected into -/
def methodOf : String → Option Method
  | "UploadSegment" => some .uploadSegment | "UploadIndex" => some .uploadIndex
  | "DeleteSegment" => some .deleteSegment | "DeleteIndex" => some .deleteIndex
  | "ListSegments" => some .listSegments | "EnsureBucket" => some .ensureBucket
  | _ => none

def faultOf : String → Option Fault
  | "none" => some .none | "once" => some .once | "always" => some .always
  | _ => none

/-- a write/list/ensure call through the dual client: result, backend calls, and (`pans=`) what the primary
backend itself answers to that call -/
def callLine (s : State) (op : Op) (c : Call) (pans : String) : State × String :=
  let r := stepOut s op
  (r.1, showOut r.2 ++ showCalls (backendCalls s c) ++ " pans=" ++ pans.replace " " ":")

def pr (r : GoResult Bytes) : String := (showRes r).replace " " ":"

/-- error class of a read (`errors.Is(err, storage.ErrNotFound)`) -/
def cls : RRes → String
  | .ok _ => "-"
  | .notFound => "nf"
  | .failed => "other"

def stepLine (s : State) (ws : List String) : State × String :=
  match ws with
  | ["new"] => (State.init, "ok")
  | ["upseg", k, hx] => match k.toNat?, fromHex hx with
    | some k, some b => callLine s (.upSeg k b) (.upSeg k) (showUnit (s.pri.uploadSegment k b).2)
    | _, _ => (s, "bad-op")
  | ["upidx", k, hx] => match k.toNat?, fromHex hx with
    | some k, some b => callLine s (.upIdx k b) (.upIdx k) (showUnit (s.pri.uploadIndex k b).2)
    | _, _ => (s, "bad-op")
  | ["delseg", k] => match k.toNat? with
    | some k => callLine s (.delSeg k) (.delSeg k) (showUnit (s.pri.deleteSegment k).2)
    | none => (s, "bad-op")
  | ["delidx", k] => match k.toNat? with
    | some k => callLine s (.delIdx k) (.delIdx k) (showUnit (s.pri.deleteIndex k).2)
    | none => (s, "bad-op")
  | ["replseg", k] => match k.toNat? with
    | some k => (step s (.replSeg k), "ok")
    | none => (s, "bad-op")
  | ["replidx", k] => match k.toNat? with
    | some k => (step s (.replIdx k), "ok")
    | none => (s, "bad-op")
  | ["rfail", k, b] => match k.toNat? with
    | some k => (step s (.rFail k (onOff b)), "ok")
    | none => (s, "bad-op")
  | "rmode" :: k :: m :: _ => match k.toNat? with
    -- slow-to-answer = answers; slow-to-fail / hang = fails: only the outcome matters to the model
    | some k =>
      if m == "ok" || m == "slowok" then (step s (.rFail k false), "ok")
      else if m == "fail" || m == "slowfail" || m == "hang" then (step s (.rFail k true), "ok")
      else (s, "bad-op")
    | none => (s, "bad-op")
  | ["conc", spec] =>
    -- concurrent reads: each is the pure function of the state and ITS OWN request
    let one (it : String) : Option String :=
      match it.splitOn ":" with
      | ["s", k, "-"] => k.toNat?.map fun k => pr (dualReadSeg s k none) ++ "/" ++ pr (s.pri.readSeg k none)
      | ["s", k, a, b] => match k.toNat?, a.toInt?, b.toInt? with
        | some k, some a, some b => some (pr (dualReadSeg s k (some ⟨a, b⟩)) ++ "/" ++ pr (s.pri.readSeg k (some ⟨a, b⟩)))
        | _, _, _ => none
      | ["i", k] => k.toNat?.map fun k => pr (dualReadIdx s k) ++ "/" ++ pr (s.pri.readIdx k)
      | _ => none
    match (spec.splitOn ",").mapM one with
    | some parts => (s, "conc " ++ joinWith " " parts)
    | none => (s, "bad-op")
  | "slow" :: _ => (s, "skip")
  | ["scenario"] => (s, "skip")
  | ["pfail", k, b] => match k.toNat? with
    | some k => (step s (.pFail k (onOff b)), "ok")
    | none => (s, "bad-op")
  | ["rdseg", k] => match k.toNat? with
    | some k => (s, showRes (dualReadSegC s k none).toGo ++ showCalls (backendCalls s (.rdSeg k none)) ++ " pri=" ++
        (showRes (s.pri.readSegC k none).toGo).replace " " ":" ++ " cls=" ++ cls (dualReadSegC s k none) ++ " pcls=" ++ cls (s.pri.readSegC k none))
    | none => (s, "bad-op")
  | ["rdseg", k, a, b] => match k.toNat?, a.toInt?, b.toInt? with
    | some k, some a, some b =>
      let r : Option Rng := some ⟨a, b⟩
      (s, showRes (dualReadSegC s k r).toGo ++ showCalls (backendCalls s (.rdSeg k r)) ++ " pri=" ++
        (showRes (s.pri.readSegC k r).toGo).replace " " ":" ++ " cls=" ++ cls (dualReadSegC s k r) ++ " pcls=" ++ cls (s.pri.readSegC k r))
    | _, _, _ => (s, "bad-op")
  | ["rdidx", k] => match k.toNat? with
    | some k => (s, showRes (dualReadIdxC s k).toGo ++ showCalls (backendCalls s (.rdIdx k)) ++ " pri=" ++
        (showRes (s.pri.readIdxC k).toGo).replace " " ":" ++ " cls=" ++ cls (dualReadIdxC s k) ++ " pcls=" ++ cls (s.pri.readIdxC k))
    | none => (s, "bad-op")
  | ["list"] => callLine s .list .list (showListing s.pri.listSegments.2)
  | ["ensure"] => callLine s .ensure .ensure (showUnit s.pri.ensureBucket.2)
  | ["popfail", m, f] => match methodOf m, faultOf f with
    | some m, some f => (step s (.pOpFail m f), "ok")
    | _, _ => (s, "bad-op")
  | ["ropfail", m, f] => match methodOf m, faultOf f with
    | some m, some f => (step s (.rOpFail m f), "ok")
    | _, _ => (s, "bad-op")
  | ["restore"] => (s, "skip")
  | _ => (s, "bad-op")

def main : IO Unit := runLines State.init stepLine
