import KafVerif.Model.StorageLog
import KafVerif.Prelude.Driver
/-!
Line-protocol driver of the `StorageLog` model, shared by C01 / C05 / C06.

The harness can only stop a goroutine at an S3 upload, at `store.UpdateOffsets`, or between
`AppendBatch` and `Flush` of a "split" thread.  After each command this driver therefore runs the
model's internal steps that the real goroutines take on their own until everything is blocked
again (`settle`): `finish` after the second upload returned, `flush` for handler ("produce")
threads whose `AppendBatch` returned, `wake` for waiters once `flushing` is false (the order in
which several woken waiters get the mutex is decided by the Go scheduler; the check passes the
observed winner as a `~t` hint).
-/
open KafVerif KafVerif.StorageLog

structure D where
  v : Variant
  s : State
  auto : List Nat      -- handler threads (append + flush in one call)
  nt : Nat             -- threads used in this epoch are 0 … nt-1

/-- `id@base+n`, followed by `#mc` when the declared record count is not the number of offsets -/
def showBatch (b : Batch) : String :=
  s!"{b.id}@{b.base}+{b.n}" ++ (if b.mc = (b.n : Int) then "" else s!"#{b.mc}")
def showBatches (l : List Batch) : String := if l.isEmpty then "-" else joinWith "." (l.map showBatch)
def showOB : Option Bool → String
  | none => "-"
  | some true => "ok"
  | some false => "fail"

def showPc : Pc → String
  | .idle => "idle"
  | .appended _ => "appended"
  | .up inA _ _ sg ix => (if inA then "upA(" else "upF(") ++ showOB sg ++ "," ++ showOB ix ++ ")"
  | .pub inA _ h => (if inA then "pubA(" else "pubF(") ++ toString h ++ ")"
  | .emptyF _ => "emptyF"
  | .waitF _ => "waitF"
  | .acked _ => "acked"
  | .failed _ => "failed"

def showS3 (f : Nat → Option (List Batch)) (kb : Nat) : String :=
  let parts := (List.range kb).filterMap fun k => (f k).map fun o => s!"{k}[{showBatches o}]"
  if parts.isEmpty then "-" else joinWith ";" parts

def showMem : Option Mem → String
  | none => "down"
  | some m =>
    let segs := if m.segments.isEmpty then "-" else joinWith "." (m.segments.map fun p => s!"{p.1}-{p.2}")
    s!"{m.next}/{showBatches m.buffer}/{showBatches m.inflight}/{if m.flushing then 1 else 0}/{segs}"

def showState (d : D) : String :=
  let pcs := if d.nt = 0 then "-" else joinWith "," ((List.range d.nt).map fun t => s!"{t}:{showPc (d.s.pcs t)}")
  s!"pcs={pcs} mem={showMem d.s.mem} s3={showS3 d.s.segs d.s.kb} ix={showS3 d.s.idxs d.s.kb} hw={d.s.hw} acked={showBatches d.s.acked.reverse}"

def isWaiter (s : State) (t : Nat) : Bool := match s.pcs t with | .waitF _ => true | _ => false
def isDone (s : State) (t : Nat) : Bool := match s.pcs t with | .up _ _ _ (some _) (some _) => true | _ => false
def isAppended (s : State) (t : Nat) : Bool := match s.pcs t with | .appended _ => true | _ => false
def isEmptyF (s : State) (t : Nat) : Bool := match s.pcs t with | .emptyF _ => true | _ => false

def apply (d : D) (e : Ev) : D := match step d.v d.s e with | some s' => { d with s := s' } | none => d

def settle (prio : List Nat) : Nat → D → D
  | 0, d => d
  | fuel + 1, d =>
    let ts := List.range d.nt
    match ts.find? (isDone d.s) with
    | some t => settle prio fuel (apply d (.finish t))
    | none =>
      match d.auto.find? (isAppended d.s) with
      | some t => settle prio fuel (apply d (.flush t))
      | none =>
        match ts.find? (isEmptyF d.s) with
        | some t => settle prio fuel (apply d (.readNext t))
        | none =>
          let fl := match d.s.mem with | some m => m.flushing | none => true
          if fl then d else
          match (prio ++ ts).find? (isWaiter d.s) with
          | some t => settle prio fuel (apply d (.wake t))
          | none => d

def parseOk : String → Option Bool
  | "ok" => some true
  | "fail" => some false
  | _ => none

/-- split `~t` hint tokens off the end of the command -/
def splitHints (ws : List String) : List String × List Nat :=
  (ws.filter (fun w => !w.startsWith "~"), ws.filterMap fun w => if w.startsWith "~" then (w.drop 1).toString.toNat? else none)

def exec (d : D) (e : Ev) (t : Nat) (prio : List Nat) : D × String :=
  match step d.v d.s e with
  | none => (d, "disabled " ++ showState d)
  | some s' =>
    let d' := settle prio 64 { d with s := s', nt := max d.nt (t + 1) }
    (d', "ok " ++ showState d')

def stepLine (d : D) (ws0 : List String) : D × String :=
  let (ws, prio) := splitHints ws0
  match ws with
  | ["new", kb, km, var] =>
    match kb.toNat?, km.toNat? with
    | some kb, some km =>
      let v := if var = "old" then old
               else if var = "hardened" then { fixed with strictBuild := true }
               else if var = "hardened-requeue" then { fixed with strictBuild := true, requeueBuild := true }
               else fixed
      let d' : D := { v := v, s := init ⟨kb, km⟩, auto := [], nt := 0 }
      (d', "ok " ++ showState d')
    | _, _ => (d, "bad-op")
  | ["restore"] =>
    match d.s.mem with
    | some _ => (d, "disabled " ++ showState d)
    | none =>
      let d' := apply d .restore
      (d', (if d'.s.mem.isSome then "ok " else "err ") ++ showState d')
  | ["crash"] =>
    match d.s.mem with
    | none => (d, "disabled " ++ showState d)
    | some _ => let d' := { apply d .crash with auto := [], nt := 0 }; (d', "ok " ++ showState d')
  | ["append", t, n] =>
    match t.toNat?, n.toNat? with
    | some t, some n => exec d (.wf t n) t prio
    | _, _ => (d, "bad-op")
  | ["append", t, n, mc] =>      -- header lie: declared record count mc (the harness's batch has 61 + 11 n bytes)
    match t.toNat?, n.toNat?, mc.toInt? with
    | some t, some n, some mc => exec d (.append t n mc (61 + 11 * n)) t prio
    | _, _, _ => (d, "bad-op")
  | ["produce", t, n] =>
    match t.toNat?, n.toNat? with
    | some t, some n =>
      match step d.v d.s (.wf t n) with
      | none => (d, "disabled " ++ showState d)
      | some _ => exec { d with auto := t :: d.auto } (.wf t n) t prio
    | _, _ => (d, "bad-op")
  | ["produce", t, n, mc] =>
    match t.toNat?, n.toNat?, mc.toInt? with
    | some t, some n, some mc =>
      match step d.v d.s (.append t n mc (61 + 11 * n)) with
      | none => (d, "disabled " ++ showState d)
      | some _ => exec { d with auto := t :: d.auto } (.append t n mc (61 + 11 * n)) t prio
    | _, _, _ => (d, "bad-op")
  | ["flush", t] =>
    match t.toNat? with
    | some t => if d.auto.contains t then (d, "disabled " ++ showState d) else exec d (.flush t) t prio
    | none => (d, "bad-op")
  | ["seg", t, o] =>
    match t.toNat?, parseOk o with
    | some t, some o => exec d (.seg t o) t prio
    | _, _ => (d, "bad-op")
  | ["idx", t, o] =>
    match t.toNat?, parseOk o with
    | some t, some o => exec d (.idx t o) t prio
    | _, _ => (d, "bad-op")
  | ["pub", t, o] =>
    match t.toNat?, parseOk o with
    | some t, some o => exec d (.pub t o) t prio
    | _, _ => (d, "bad-op")
  | ["buildfault", o] =>        -- model only: the fault oracle of BuildSegment (bites in requeueBuild shapes only)
    match parseOk o with
    | some on => let d' := apply d (.buildFault on); (d', "ok " ++ showState d')
    | none => (d, "bad-op")
  | ["readcheck"] =>
    match d.s.mem with
    | none => (d, "disabled")
    | some m =>
      let bad := d.s.acked.reverse.filter fun b => !readableB d.s m b
      (d, s!"ok unreadable={showBatches bad} next={m.next}")
  | _ => (d, "bad-op")

def main : IO Unit := runLines ({ v := fixed, s := init ⟨0, 0⟩, auto := [], nt := 0 } : D) stepLine
