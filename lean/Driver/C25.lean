import KafVerif.Model.S3Health
import KafVerif.Prelude.Driver
open KafVerif KafVerif.S3Health

structure St where
  m : Mon
  now : Int

def dump (m : Mon) (st : HState) : String :=
  let n := m.samples.length
  let avg := if n = 0 then 0 else avgOf m.samples
  s!"state={st.name} n={n} avg={avg} k={errors m.samples}"

def ints (ws : List String) : Option (List Int) := ws.mapM (·.toInt?)

def parseSample (s : String) : Option Sample :=
  match s.splitOn ":" with
  | [a, b, c] => do pure { ts := (← a.toInt?), lat := (← b.toInt?), err := c == "1" }
  | _ => none

def mkCfg : List Int → Option Cfg
  | [w, lw, lc, ewn, ewd, ecn, ecd, mx] =>
    some { window := w, latWarn := lw, latCrit := lc, errWarnNum := ewn.toNat, errWarnDen := ewd.toNat,
           errCritNum := ecn.toNat, errCritDen := ecd.toNat, maxSamples := mx }
  | _ => none

def stepLine (s : St) (ws : List String) : St × String :=
  match ws with
  | "new" :: rest => match ints rest >>= mkCfg with
    | some c => ({ m := new c, now := 0 }, "new")
    | none => (s, "bad-op")
  | ["rec", lat, err] => match lat.toInt? with
    | some l =>
      let m' := record s.m s.now l (err == "1")
      ({ s with m := m' }, "rec " ++ dump m' (recompute m'.cfg m'.samples))
    | none => (s, "bad-op")
  | ["tick", d] => match d.toInt? with
    | some d => ({ s with now := s.now + d }, "tick")
    | none => (s, "bad-op")
  | ["state"] =>
    let (m', st) := observe s.m s.now
    ({ s with m := m' }, "state " ++ dump m' st)
  -- exact <now> <cfg…8> <ts:lat:err>… : truncateLocked(now)+recomputeLocked on exactly these samples
  | "exact" :: now :: rest =>
    match now.toInt?, ints (rest.take 8) >>= mkCfg, (rest.drop 8).mapM parseSample with
    | some now, some c, some samples =>
      let m : Mon := { cfg := normCfg c, samples := samples }
      let (m', st) := observe m now
      (s, "exact " ++ dump m' st)
    | _, _, _ => (s, "bad-op")
  -- gate <state> : the codes the handlers answer with
  -- cross <nparts> <failAt> <acks> : one produce over nparts partitions, the upload of partition failAt fails, thresholds
  -- so low that any failure rates S3 unavailable
  | ["cross", n, failAt, acks] => match n.toNat?, failAt.toNat? with
    | some n, some failAt =>
      let rating : List Bool → HState := fun h => if h.any id then .unavailable else .healthy
      let parts := (List.range n).map fun i => i == failAt
      let outs := produceLoop rating [] parts
      let codes := if acks == "0" then outs.map (fun _ => "noreply") else outs.map fun o => toString o.code
      let final := rating (parts.take (outs.filter (·.appended)).length)
      (s, s!"cross codes={joinWith "," codes} appended={joinWith "," (outs.map fun o => if o.appended then "1" else "0")} final={final.name}")
    | _, _ => (s, "bad-op")
  | ["gate", st, acks] =>
    let hs := if st == "healthy" then HState.healthy else if st == "degraded" then .degraded else .unavailable
    let (pc, app) := produceGate hs 0
    let (fc, recs) := fetchGate hs 0 [1]
    let pcs := if acks == "0" then "noreply" else toString pc
    let bad := (pc != 0 && acks != "0" && !retriable pc) || (fc != 0 && !retriable fc)
    (s, s!"gate produce={pcs} appended={app} fetch={fc} records={recs.length} retriable={if bad then "NOT-RETRIABLE" else "all"}")
  | _ => (s, "bad-op")

def main : IO Unit :=
  runLines ({ m := new { window := 0, latWarn := 0, latCrit := 0, errWarnNum := 0, errWarnDen := 1, errCritNum := 0, errCritDen := 1, maxSamples := 0 }, now := 0 } : St) stepLine
