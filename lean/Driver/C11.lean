import KafVerif.Model.ApiTable
import KafVerif.Gen.C11Tables
import KafVerif.Prelude.Driver
open KafVerif KafVerif.ApiTable KafVerif.ProtoHeader

def respFlex : Int → Int → Bool := flexOf (respFlexTab KafVerif.Gen.C11.kmsgTab)

def known (k : Int) : Bool := KafVerif.Gen.C11.kmsgTab.any (fun r => r.1 == k)

def stepLine (u : Unit) (ws : List String) : Unit × String :=
  match ws with
  | ["req", k, v, c, _] => match k.toInt?, v.toInt?, c.toInt? with
    | some k, some v, some c =>
      let h := replyHeader respFlex k v c
      (u, s!"reply hdr={h.length} corr={toInt32 (u32 (h.take 4))}")
    | _, _, _ => (u, "bad-op")
  | ["srh", k, v, hx] => match k.toInt?, v.toInt?, fromHex hx with
    | some k, some v, some b =>
      (u, match skipResponseHeader known respFlex k v b with
        | .ok (some body) => s!"srh ok body={toHex body}"
        | .ok none => "srh no"
        | .err => "srh no"
        | .panic => "srh panic")
    | _, _, _ => (u, "bad-op")
  | _ => (u, "bad-op")

def main : IO Unit := runLines () stepLine
