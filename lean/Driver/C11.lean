import KafVerif.Model.ApiTable
import KafVerif.Gen.C11Tables
import KafVerif.Prelude.Driver
open KafVerif KafVerif.ApiTable KafVerif.ProtoHeader

def respFlex : Int → Int → Bool := flexOf (respFlexTab KafVerif.Gen.C11.kmsgTab)

def known (k : Int) : Bool := KafVerif.Gen.C11.kmsgTab.any (fun r => r.1 == k)

/-- `k:v:corr:e` — e = 0: a Produce sent with acks=0 (expects no reply); e = 1: any other request -/
def parseReq (s : String) : Option Req :=
  match s.splitOn ":" with
  | [k, v, c, e] => do pure { key := (← k.toInt?), ver := (← v.toInt?), corr := (← c.toInt?), acks := if e == "0" then 0 else -1 }
  | _ => none

def stepLine (u : Unit) (ws : List String) : Unit × String :=
  match ws with
  | ["req", k, v, c, _] => match k.toInt?, v.toInt?, c.toInt? with
    | some k, some v, some c =>
      let h := replyHeader respFlex k v c
      (u, s!"reply hdr={h.length} corr={toInt32 (u32 (h.take 4))}")
    | _, _, _ => (u, "bad-op")
  | ["stream", rs] =>
    -- the frames the connection loop writes for this request sequence (`serve`, bodies empty): correlation id and header length each
    match (rs.splitOn ",").mapM parseReq with
    | some reqs =>
      let frames := serve respFlex (fun _ _ => []) (handleOutcome (fun _ => 1) (fun _ => []) (fun _ => false)) reqs
      (u, "replies " ++ joinWith "," (frames.map fun f => s!"{frameCorr f}:{f.length}"))
    | none => (u, "bad-op")
  | ["srh", k, v, hx] => match k.toInt?, v.toInt?, fromHex hx with
    | some k, some v, some b =>
      (u, match skipResponseHeader known respFlex k v b with
        | .ok (some body) => s!"srh ok body={toHex body}"
        | .ok none => "srh no"
        | .err => "srh no"
        | .panic => "srh panic")
    | _, _, _ => (u, "bad-op")
  | _ => (u, "bad-op")

def main : IO Unit := runLines () stepLine
