import KafVerif.Model.KafkaDriver
open KafVerif KafVerif.Kafka

/-- `lean --run Driver/C07.lean <variant>`: variant ∈ root | iceberg | sql | skeleton | iceberg_old | sql_old | sql_ts32 -/
def main (args : List String) : IO Unit := do
  let tab := crcTable
  let d : DriverCfg := ⟨args.headD "root", crc32cWith tab, goMakeLim AllocMax⟩
  runLines () fun _ ws => ((), kafkaStep d ws)
