import KafVerif.Model.StorageLogRegistry
import KafVerif.Prelude.Driver
/-! Line-protocol driver of the `StorageLogRegistry` model (getPartitionLog under concurrent first
requests).  The harness can stop a goroutine only at `store.NextOffset` and `store.CreateTopic`;
`settle` runs the steps in between (singleflight decision, re-check, restore + publish). -/
open KafVerif KafVerif.StorageLogRegistry

structure D where
  v : Variant
  s : State
  nt : Nat

def showPc : RPc → String
  | .idle => "idle"
  | .missed => "missed"
  | .leader .recheck => "recheck"
  | .leader .next => "nxt"
  | .leader (.restoring _) => "restoring"
  | .waiter => "wait"
  | .create => "mk"
  | .got _ => "got"
  | .failed => "failed"

def showState (d : D) : String :=
  let pcs := if d.nt = 0 then "-" else joinWith "," ((List.range d.nt).map fun t => s!"{t}:{showPc (d.s.pcs t)}")
  s!"pcs={pcs} logs={d.s.pubs} topic={if d.s.topic then 1 else 0}"

def apply (d : D) (e : Ev) : D := match step d.v d.s e with | some s' => { d with s := s' } | none => d

def settle : Nat → D → D
  | 0, d => d
  | fuel + 1, d =>
    let ts := List.range d.nt
    match ts.find? (fun t => d.s.pcs t == .missed) with
    | some t => settle fuel (apply d (.doCall t))
    | none =>
      match ts.find? (fun t => d.s.pcs t == .leader .recheck) with
      | some t => settle fuel (apply d (.recheck t))
      | none =>
        match ts.find? (fun t => match d.s.pcs t with | .leader (.restoring _) => true | _ => false) with
        | some t => settle fuel (apply d (.publish t true))
        | none => d

def exec (d : D) (e : Ev) (t : Nat) : D × String :=
  match step d.v d.s e with
  | none => (d, "disabled " ++ showState d)
  | some s' => let d' := settle 64 { d with s := s', nt := max d.nt (t + 1) }; (d', "ok " ++ showState d')

def parseOk : String → Option Bool
  | "ok" => some true
  | "fail" => some false
  | _ => none

def stepLine (d : D) (ws : List String) : D × String :=
  match ws with
  | ["rnew", tp, var] =>
    let d' : D := { v := if var = "norecheck" then noRecheck else code, s := init (tp = "exists"), nt := 0 }
    (d', "ok " ++ showState d')
  | ["rprod", t] => match t.toNat? with
    | some t => exec d (.enter t) t
    | none => (d, "bad-op")
  | ["nxt", t, o] => match t.toNat?, parseOk o with
    | some t, some o => exec d (.next t o) t
    | _, _ => (d, "bad-op")
  | ["mk", t, o] => match t.toNat?, parseOk o with
    | some t, some o => exec d (.mk t o) t
    | _, _ => (d, "bad-op")
  | _ => (d, "bad-op")

def main : IO Unit := runLines ({ v := code, s := init true, nt := 0 } : D) stepLine
