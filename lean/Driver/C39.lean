import KafVerif.Model.OpSnapshot
import KafVerif.Model.OpBucket
import KafVerif.Prelude.Driver
open KafVerif KafVerif.GoStr

/-! Line-protocol driver for C39 (`md`, `bk`, `san`, `dep`). -/

def optInt (s : String) : Option (Option Int) :=
  if s == "nil" then some none else (s.toInt?).map some

def ints (xs : List Int) : String := joinWith "." (xs.map toString)

def parseTopics (s : String) : Option (List OpSnapshot.TopicSpec) :=
  if s == "-" then some [] else
  (s.splitOn ",").mapM fun ts =>
    match ts.splitOn ":" with
    | [n, k] => match runesOfHex n, k.toInt? with
      | some n, some k => some { name := n, partitions := k }
      | _, _ => none
    | _ => none

def showMd (md : OpSnapshot.Metadata) : String :=
  let bs := md.brokers.map fun b => s!"{b.nodeId}@{hexOfRunes b.host}:{b.port}"
  let ts := md.topics.map fun t =>
    hexOfRunes t.name ++ "[" ++ joinWith ";" (t.partitions.map fun p =>
      s!"{p.id}/{p.leader}/{ints p.replicas}/{ints p.isr}") ++ "]"
  s!"ok ctrl={md.controllerId} brokers={joinWith "," bs} topics={joinWith "," ts}"

def stepLine (old : Bool) (ws : List String) : Bool × String :=
  let lower := OpBucket.lowerLatin1
  match ws with
  | ["mode", m] => (m == "old", "ok")
  | ["san", raw] => match runesOfHex raw with
    | some r => (old, "bucket " ++ hexOfRunes (if old then OpBucket.sanitizeOld lower r else OpBucket.sanitize lower r))
    | none => (old, "bad-op")
  | ["bk", ns, name] => match runesOfHex ns, runesOfHex name with
    | some ns, some name =>
      (old, "bucket " ++ hexOfRunes (if old then OpBucket.defaultBucketOld lower ns name else OpBucket.defaultBucket lower ns name))
    | _, _ => (old, "bad-op")
  | ["md", name, ns, rep, host, port, topics] =>
    match runesOfHex name, runesOfHex ns, optInt rep, runesOfHex host, optInt port, parseTopics topics with
    | some name, some ns, some rep, some host, some port, some topics =>
      let c : OpSnapshot.ClusterSpec := { name := name, namespace_ := ns, replicas := rep, advertisedHost := host, advertisedPort := port }
      match OpSnapshot.build c topics with
      | .ok md => (old, showMd md)
      | .err => (old, "err")
      | .panic => (old, "panic")
    | _, _, _, _, _, _ => (old, "bad-op")
  | ["dep", name, ns, rep, host, port] =>
    match runesOfHex name, runesOfHex ns, optInt rep, runesOfHex host, optInt port with
    | some name, some ns, some rep, some host, some port =>
      let c : OpSnapshot.ClusterSpec := { name := name, namespace_ := ns, replicas := rep, advertisedHost := host, advertisedPort := port }
      (old, s!"deployed sts={hexOfRunes (OpSnapshot.stsName c)} svc={hexOfRunes (OpSnapshot.headlessName c)} replicas={OpSnapshot.stsReplicas c} headless={hexOfRunes (OpSnapshot.headlessName c)} env={hexOfRunes (OpSnapshot.headlessName c)}")
    | _, _, _, _, _ => (old, "bad-op")
  | _ => (old, "bad-op")

def main : IO Unit := runLines false stepLine
