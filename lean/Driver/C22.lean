import KafVerif.Model.MetaKeys
import KafVerif.Prelude.Driver
open KafVerif KafVerif.MetaKeys

def ofBytes (b : Bytes) : List Char := b.map fun x => Char.ofNat x.toNat
def toBytes (s : List Char) : Bytes := s.map fun c => UInt8.ofNat c.toNat
def hx (s : List Char) : String := toHex (toBytes s)
def unhx (s : String) : Option (List Char) := (fromHex s).map ofBytes

def keysLine (ns t : List Char) (p b : Int) : String :=
  joinWith " " [
    "seg=" ++ hx (segmentKey ns t p b), "idx=" ++ hx (indexKey ns t p b), "pfx=" ++ hx (segmentPrefix ns t p),
    "ctk=" ++ hx (cacheTopicKey ns t), "cache=" ++ hx (cacheKey ns t p b),
    "off=" ++ hx (offsetKey t p), "cfg=" ++ hx (topicConfigKey t), "pst=" ++ hx (partitionStateKey t p),
    "del=" ++ hx (topicDeletePrefix t), "lease=" ++ hx (leaseKey t p), "asg=" ++ hx (assignmentKey t p),
    "res=" ++ hx (resourceID t p), "mem=" ++ hx (partitionKey t p)]

/-- The harness' behaviour probe on one store: create a, create b, UpdateOffsets(a,0,41),
UpdateOffsets(b,0,17), DeleteTopic(a), NextOffset(b,0) — with `InMemoryStore.offsets` as an
association list keyed by `partitionKey` and `DeleteTopic` removing by `memDeletePrefix`. -/
def pairProbe (a b : List Char) : String :=
  let ra := accepted a
  let rb := accepted b && a != b
  let s (x : Bool) := if x then "accept" else "reject"
  if !(ra && rb) then s!"pair a={s ra} b={s rb}" else
  let offs : List (List Char × Nat) := [(partitionKey b 0, 18), (partitionKey a 0, 42)]
  let offs := offs.filter fun kv => !(memDeletePrefix a).isPrefixOf kv.1
  let next := ((offs.find? fun kv => kv.1 == partitionKey b 0).map (·.2)).getD 0
  s!"pair a=accept b=accept del=true next={next} nerr=true"

def stepLine (u : Unit) (ws : List String) : Unit × String :=
  match ws with
  | ["accept", t] => match unhx t with
    | some t => (u, if accepted t then "accept" else "reject")
    | none => (u, "bad-op")
  | ["keys", ns, t, p, b] => match unhx ns, unhx t, p.toInt?, b.toInt? with
    | some ns, some t, some p, some b => (u, keysLine ns t p b)
    | _, _, _, _ => (u, "bad-op")
  | ["pair", a, b] => match unhx a, unhx b with
    | some a, some b => (u, pairProbe a b)
    | _, _ => (u, "bad-op")
  | ["clean", p] => match unhx p with
    | some p => (u, "clean " ++ hx (pathClean p))
    | none => (u, "bad-op")
  | "join" :: es => match es.mapM unhx with
    | some es => (u, "join " ++ hx (pathJoin es))
    | none => (u, "bad-op")
  | _ => (u, "bad-op")

def main : IO Unit := runLines () stepLine
