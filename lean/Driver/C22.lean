import KafVerif.Model.MetaKeys
import KafVerif.Prelude.Driver
open KafVerif KafVerif.MetaKeys

def ofBytes (b : Bytes) : List Char := b.map fun x => Char.ofNat x.toNat
def toBytes (s : List Char) : Bytes := s.map fun c => UInt8.ofNat c.toNat
def hx (s : List Char) : String := toHex (toBytes s)
def unhx (s : String) : Option (List Char) := (fromHex s).map ofBytes

def keysLine (ns t : List Char) (p b : Int) : String :=
  joinWith " " [
    "seg=" ++ hx (segmentKey ns t p b), "idx=" ++ hx (indexKey ns t p b), "pfx=" ++ hx (segmentPrefix ns t p),
    "ctk=" ++ hx (cacheTopicKey ns t), "cache=" ++ hx (cacheKey ns t p b),
    "off=" ++ hx (offsetKey t p), "cfg=" ++ hx (topicConfigKey t), "pst=" ++ hx (partitionStateKey t p),
    "del=" ++ hx (topicDeletePrefix t), "lease=" ++ hx (leaseKey t p), "asg=" ++ hx (assignmentKey t p),
    "res=" ++ hx (resourceID t p), "mem=" ++ hx (partitionKey t p)]

/-- The harness' behaviour probe on one store: create a, create b, UpdateOffsets(a,0,41),
UpdateOffsets(b,0,17), DeleteTopic(a), NextOffset(b,0) — with `InMemoryStore.offsets` as an
association list keyed by `partitionKey` and `DeleteTopic` removing by `memDeletePrefix`. -/
def pairProbe (a b : List Char) : String :=
  let ra := accepted a
  let rb := accepted b && a != b
  let s (x : Bool) := if x then "accept" else "reject"
  if !(ra && rb) then s!"pair a={s ra} b={s rb}" else
  let offs : List (List Char × Nat) := [(partitionKey b 0, 18), (partitionKey a 0, 42)]
  let offs := offs.filter fun kv => !(memDeletePrefix a).isPrefixOf kv.1
  let next := ((offs.find? fun kv => kv.1 == partitionKey b 0).map (·.2)).getD 0
  s!"pair a=accept b=accept del=true next={next} nerr=true"

/-! ### `delfam`: the delete-selector scenario (harness/C22/root/cmd/broker/zz_verif_c22_delfam.go) -/

def keyHash (k : List Char) : Nat := k.foldl (fun h c => (h * 131 + c.toNat) % 1000000007) 7

def insStr (x : String) : List String → List String
  | [] => [x]
  | y :: r => if x < y then x :: y :: r else y :: insStr x r

def sortStrs (l : List String) : List String := l.foldr insStr []

def joinOrDash (l : List String) : String := if l.isEmpty then "-" else joinWith "," (sortStrs l)

/-- The etcd keys the set-up phase of topic `i` writes (owner = `i`): next offsets of partitions 0..n, the
config, the partition-state key of the added partition n, the commits of every group to partitions 0 and n. -/
def famKeys (groups : List (List Char)) (t : List Char) (n : Nat) : List (List Char) :=
  ((List.range (n + 1)).map fun p => offsetKey t (p : Nat)) ++ [topicConfigKey t, partitionStateKey t (n : Nat)] ++
  (groups.flatMap fun g => [consumerOffsetKey g t 0, consumerOffsetKey g t (n : Nat)])

def delfamLine (fixed : Bool) (victim : List Char) (groups : List (List Char)) (topics : List (List Char × Nat)) : String :=
  match topics.find? (fun t => !accepted t.1) with
  | some t => s!"delfam rej={hx t.1} store=0"
  | none =>
  let sel (k : List Char) : Bool := if fixed then topicDeleteSel victim k || coffDeleteSelFixed victim k else etcdDeleteSel victim k
  let idx := topics.zipIdx
  let owned : List (List Char × String × Bool) :=      -- key, owner label, owner is the victim
    (groups.map fun g => (consumerGroupKey g, "G", false)) ++
    idx.flatMap fun (t, i) => (famKeys groups t.1 t.2).map fun k => (k, toString i, t.1 == victim)
  let deleted := owned.filter fun e => sel e.1
  let sum := deleted.foldl (fun a e => (a + keyHash e.1) % 1000000007) 0
  let lost := (deleted.filter fun e => !e.2.2).map fun e => hx e.1 ++ "@" ++ e.2.1
  let left := (owned.filter fun e => e.2.2 && !sel e.1).map fun e => hx e.1
  let nkeys := (owned.filter fun e => e.2.2).length
  let gidx := groups.zipIdx
  let others := idx.filter fun (t, _) => t.1 != victim
  let apiM := others.flatMap fun (t, i) =>
    ((List.range (t.2 + 1)).filterMap fun p => if memOffDeleteSel victim (partitionKey t.1 (p : Nat)) then some s!"{i}:no:{p}" else none) ++
    gidx.flatMap fun (g, gi) => [0, t.2].filterMap fun p =>
      if memCoffDeleteSel victim (g, t.1, (p : Nat)) then some s!"{i}:co:{gi}:{p}" else none
  let apiE := (others.flatMap fun (t, i) =>
    ((List.range (t.2 + 1)).filterMap fun p => if sel (offsetKey t.1 (p : Nat)) then some s!"{i}:no:{p}" else none) ++
    (if sel (topicConfigKey t.1) then [s!"{i}:cfg"] else []) ++
    gidx.flatMap fun (g, gi) => [0, t.2].filterMap fun p =>
      if sel (consumerOffsetKey g t.1 (p : Nat)) then some s!"{i}:co:{gi}:{p}" else none) ++
    gidx.filterMap fun (g, gi) => if sel (consumerGroupKey g) then some s!"G:grp:{gi}" else none
  let vt := topics.filter fun t => t.1 == victim
  let staleM := vt.flatMap fun t => gidx.flatMap fun (g, gi) => [0, t.2].filterMap fun p =>
    if memCoffDeleteSel victim (g, t.1, (p : Nat)) then none else some s!"co:{gi}:{p}"
  let staleE := vt.flatMap fun t => gidx.flatMap fun (g, gi) => [0, t.2].filterMap fun p =>
    if sel (consumerOffsetKey g t.1 (p : Nat)) then none else some s!"co:{gi}:{p}"
  s!"delfam dM=ok dE=ok nkeys={nkeys} del={deleted.length}:{sum} lostE={joinOrDash lost} leftE={joinOrDash left} " ++
  s!"apiM={joinOrDash apiM} apiE={joinOrDash apiE} staleM={joinOrDash staleM} staleE={joinOrDash staleE}"

def parseFam (victim groups topics : String) : Option (List Char × List (List Char) × List (List Char × Nat)) := do
  let v ← unhx victim
  let gs ← (groups.splitOn ",").mapM unhx
  let ts ← (topics.splitOn ";").mapM fun sp => match sp.splitOn ":" with
    | [n, p] => do pure ((← unhx n), (← p.toNat?))
    | _ => none
  pure (v, gs, ts)

def stepLine (u : Unit) (ws : List String) : Unit × String :=
  match ws with
  | ["accept", t] => match unhx t with
    | some t => (u, if accepted t then "accept" else "reject")
    | none => (u, "bad-op")
  | ["keys", ns, t, p, b] => match unhx ns, unhx t, p.toInt?, b.toInt? with
    | some ns, some t, some p, some b => (u, keysLine ns t p b)
    | _, _, _, _ => (u, "bad-op")
  | ["pair", a, b] => match unhx a, unhx b with
    | some a, some b => (u, pairProbe a b)
    | _, _ => (u, "bad-op")
  | ["delfam", v, gs, ts] => match parseFam v gs ts with
    -- first the prediction for HEAD's selectors, then for the end-anchored selector of the proposed fix
    | some (v, gs, ts) => (u, delfamLine false v gs ts ++ " || " ++ delfamLine true v gs ts)
    | none => (u, "bad-op")
  | ["clean", p] => match unhx p with
    | some p => (u, "clean " ++ hx (pathClean p))
    | none => (u, "bad-op")
  | "join" :: es => match es.mapM unhx with
    | some es => (u, "join " ++ hx (pathJoin es))
    | none => (u, "bad-op")
  | _ => (u, "bad-op")

def main : IO Unit := runLines () stepLine
