import KafVerif.Model.McpStore
import KafVerif.Prelude.Driver
open KafVerif KafVerif.Mcp

def ids (csv : String) : List Nat :=
  if csv == "-" then [] else (csv.splitOn ",").filterMap (·.toNat?)

def joinOr (xs : List String) : String := if xs.isEmpty then "-" else joinWith "," xs

def showResult : Result → String
  | .error => "err"
  | .metricsOnly => "err"      -- the harness configures no metrics provider
  | .topics b l =>
    let bs := match b with | some n => toString n | none => "-"
    s!"topics[b={bs}] " ++ joinOr (l.map fun e => s!"t{e.1}:{e.2.1}:{e.2.2}")
  | .topicDetails l =>
    let ids (xs : List Nat) : String := if xs.isEmpty then "-" else joinWith "." (xs.map toString)
    "details " ++ joinOr (l.map fun e =>
      let ps := if e.2.2.isEmpty then "-" else
        joinWith ";" (e.2.2.map fun (p : PartInfo) => s!"{p.id}={ids p.replicas}|{ids p.isr}|{ids p.offline}")
      s!"t{e.1}:{e.2.1}:{ps}")
  | .groups l => "groups " ++ joinOr (l.map fun e => s!"g{e.1}:{e.2.1}:{e.2.2}")
  | .group g info =>
    let ms := if info.members.isEmpty then "-" else joinWith "." (info.members.map fun m => s!"m{m}")
    s!"group g{g}:{info.state}:gen={info.generation}:{ms}"
  | .offsets l => "offsets " ++ joinOr (l.map fun e => s!"t{e.1}/{e.2.1}={e.2.2.1}:{e.2.2.2}")
  | .configs l => "configs " ++ joinOr (l.map fun e => s!"t{e.1}:{e.2.partitions}:{e.2.retentionMs}")

def gid (s : String) : Option Nat := if s == "empty" || s == "-" then none else s.toNat?

def stepLine (s : Store) (ws : List String) : Store × String :=
  match ws with
  | ["new", b] => (empty (b.toNat?.getD 0), "new")
  | ["itopic", t, n] => match t.toNat?, n.toNat? with
    | some t, some n => ({ s with topics := s.topics ++ [(t, n)] }, "ok")
    | _, _ => (s, "bad-op")
  | ["rtopic", t, n, v] => match t.toNat?, n.toNat?, v.toNat? with
    | some t, some n, some v =>
      ({ s with topics := s.topics ++ [(t, n)],
                layouts := s.layouts ++ (List.range n).map fun p => ((t, p), layoutOf v p) }, "ok")
    | _, _, _ => (s, "bad-op")
  | ["ptopic", t, o, v] => match t.toNat?, o.toNat?, v.toNat? with
    | some t, some o, some v =>
      let ids := partOrderTable.getD (o % partOrderTable.length) []
      ({ s with topics := s.topics ++ [(t, ids.length)], partIds := s.partIds ++ [(t, ids)],
                layouts := s.layouts ++ (List.range ids.length).map fun pos => ((t, pos), layoutOf v pos) }, "ok")
    | _, _, _ => (s, "bad-op")
  | ["topic", t, n] => match t.toNat?, n.toNat? with
    | some t, some n =>
      let bad := n = 0 ∨ (alookup s.topics t).isSome ∨ s.brokers = 0
      (exec s (.createTopic t n), if bad then "err" else "ok")
    | _, _ => (s, "bad-op")
  | ["commit", g, t, p, off, md] => match g.toNat?, t.toNat?, p.toNat?, off.toInt?, md.toNat? with
    | some g, some t, some p, some off, some md => (exec s (.commitConsumerOffset g t p off md), "ok")
    | _, _, _, _, _ => (s, "bad-op")
  | ["oldcommit", g, t, p, off, _age] =>   -- a commit made long ago: the state keeps no timestamp (empty metadata)
    match g.toNat?, t.toNat?, p.toNat?, off.toInt? with
    | some g, some t, some p, some off => (exec s (.commitConsumerOffset g t p off 0), "ok")
    | _, _, _, _ => (s, "bad-op")
  | ["group", g, st, gen, ms] => match g.toNat?, st.toNat?, gen.toNat? with
    | some g, some st, some gen => (exec s (.putConsumerGroup g ⟨st, gen, ids ms⟩), "ok")
    | _, _, _ => (s, "bad-op")
  | ["config", t, n, r] => match t.toNat?, n.toNat?, r.toInt? with
    | some t, some n, some r =>
      (exec s (.updateTopicConfig t ⟨n, r⟩), if (alookup s.topics t).isSome then "ok" else "err")
    | _, _, _ => (s, "bad-op")
  | ["parts", t, n] => match t.toNat?, n.toNat? with
    | some t, some n =>
      let bad := match alookup s.topics t with
        | none => true
        | some cur => n ≤ cur
      (exec s (.createPartitions t n), if bad then "err" else "ok")
    | _, _ => (s, "bad-op")
  | ["offs", t, p, l] => match t.toNat?, p.toNat?, l.toInt? with
    | some t, some p, some l => (exec s (.updateOffsets t p l), "ok")
    | _, _, _ => (s, "bad-op")
  | "callraw" :: tool :: _ => (s, s!"callraw {tool}")
  | "call" :: tool :: args =>
    let a (i : Nat) : String := args.getD i "-"
    let tc : Option ToolCall := match tool with
      | "cluster_status" => some .clusterStatus
      | "cluster_metrics" => some .clusterMetrics
      | "list_topics" => some .listTopics
      | "describe_topics" => some (.describeTopics (ids (a 0)))
      | "list_groups" => some .listGroups
      | "describe_group" => some (.describeGroup (gid (a 0)))
      | "fetch_offsets" => some (.fetchOffsets (gid (a 0)) (ids (a 1)))
      | "describe_configs" => some (.describeConfigs (ids (a 0)))
      | _ => none
    match tc with
    | some tc => let (s', r) := runTool s tc; (s', s!"call {tool} " ++ showResult r)
    | none => (s, s!"call {tool} err")
  | _ => (s, "bad-op")

def main : IO Unit := runLines (empty 0) stepLine
