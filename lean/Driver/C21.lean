import KafVerif.Model.Snapshot
import KafVerif.Prelude.Driver
open KafVerif KafVerif.Snapshot

def nBrokers : Nat := 3

def dumpSnap (s : Snap) : String :=
  if s.isEmpty then "-" else joinWith "," (s.map fun e => s!"{e.1}:{e.2}")

def dumpAll (s : State) : String :=
  let e := match s.etcd with | none => "none" | some x => dumpSnap x
  s!"etcd={e} " ++ joinWith " " ((List.range nBrokers).map fun b => s!"b{b}={dumpSnap (s.brokers b).loc}")

def resName : Res → String
  | .ok => "ok" | .exists_ => "exists" | .invalid => "invalid" | .unknown => "unknown"
  | .conflict => "conflict" | .pending => "pending"

inductive Call where
  | broker (b : Nat) (op : TOp)
  | operator (crd : Snap)

def parseCrd (s : String) : Option Snap :=
  if s = "-" then some [] else
  (s.splitOn ",").mapM fun e => match e.splitOn ":" with
    | [t, n] => do pure ((← t.toNat?), (← n.toNat?))
    | _ => none

def parseCall : List String → Option Call
  | ["op", crd] => (parseCrd crd).map .operator
  | [b, "create", t, n] => do pure (.broker (← b.toNat?) (.create (← t.toNat?) (← n.toInt?)))
  | [b, "grow", t, n] => do pure (.broker (← b.toNat?) (.grow (← t.toNat?) (← n.toInt?)))
  | [b, "delete", t] => do pure (.broker (← b.toNat?) (.delete (← t.toNat?)))
  | _ => none

def splitWith (ws : List String) : List (List String) :=
  let rec go (cur : List String) (acc : List (List String)) : List String → List (List String)
    | [] => (cur.reverse :: acc).reverse
    | w :: r => if w = "with" then go [] (cur.reverse :: acc) r else go (w :: cur) acc r
  go [] [] ws

/-- finish a pending update: the txn, and after a conflict the retry's txn (≤ 5 attempts). -/
def finish (s : State) (b : Nat) : Nat → State × Res
  | 0 => (s, .pending)
  | fuel + 1 =>
    let (s', r) := step merge s (.commit b)
    if r = .pending && (s'.brokers b).pend.isSome then finish s' b fuel else (s', r)

def publish (s : State) (crd : Snap) : State × Res :=
  let (s1, _) := step merge s (.opGet crd)
  step merge s1 .opTxn

/-- a complete call with nothing in between -/
def callNow (s : State) : Call → State × Res
  | .broker b op =>
    let (s1, r) := step merge s (.begin b op)
    if r = .pending then finish s1 b 6 else (s1, r)
  | .operator crd => publish s crd

def stepLine (s : State) (ws : List String) : State × String :=
  match ws with
  | ["reset"] => let s' := init (fun _ => []); (s', "reset " ++ dumpAll s')
  | "call" :: rest =>
    match (splitWith rest).mapM parseCall with
    | some (.broker b op :: inj) =>
      if b ≥ nBrokers || inj.any (fun c => match c with | .broker b' _ => b' == b || b' ≥ nBrokers | _ => false) then (s, "bad-op") else
      let (s1, r) := step merge s (.begin b op)
      if r != .pending then (s1, s!"call res={resName r} inj=- " ++ dumpAll s1) else
      let (s2, rs) := inj.foldl (fun (acc : State × List String) c =>
        let (s', r') := callNow acc.1 c; (s', acc.2 ++ [resName r'])) (s1, [])
      let (s3, r3) := finish s2 b 6
      let injs := if rs.isEmpty then "-" else joinWith "," rs
      (s3, s!"call res={resName r3} inj={injs} " ++ dumpAll s3)
    | _ => (s, "bad-op")
  | ["watch", b] => match b.toNat? with
    | some b => if b ≥ nBrokers then (s, "bad-op") else
      let (s', _) := step merge s (.watch b); (s', "watch " ++ dumpAll s')
    | none => (s, "bad-op")
  | ["publish", crd] => match parseCrd crd with
    | some crd => let (s', r) := publish s crd; (s', s!"publish res={resName r} " ++ dumpAll s')
    | none => (s, "bad-op")
  | ["live"] => (s, "live ok")
  | ["stress", _, _] => (s, "stress ok")
  | _ => (s, "bad-op")

def main : IO Unit := runLines (init (fun _ => [])) stepLine
