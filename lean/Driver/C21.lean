import KafVerif.Model.Snapshot
import KafVerif.Prelude.Driver
open KafVerif KafVerif.Snapshot

def nBrokers : Nat := 3

def dumpSnap (s : Snap) : String :=
  if s.isEmpty then "-" else joinWith "," (s.map fun e => s!"{e.1}:{e.2}")

def dumpAll (s : State) : String :=
  let e := match s.etcd with | none => "none" | some x => dumpSnap x
  s!"etcd={e} " ++ joinWith " " ((List.range nBrokers).map fun b => s!"b{b}={dumpSnap (s.brokers b).loc}")

def resName : Res → String
  | .ok => "ok" | .exists_ => "exists" | .invalid => "invalid" | .unknown => "unknown"
  | .conflict => "conflict" | .pending => "pending" | .err => "err"

/-- injected transient etcd error of one call: the k-th `Get` of the snapshot key, the first `Delete`
(DeleteTopic's offset cleanup), the k-th snapshot txn (`applied`: executed by etcd, answer lost) -/
inductive Fail where
  | none
  | get (k : Nat)
  | del
  | txn (k : Nat) (applied : Bool)

inductive Call where
  | broker (b : Nat) (op : TOp) (f : Fail)
  | operator (crd : Snap)
  /-- hand broker `b` the oldest notification its watch stream is holding -/
  | late (b : Nat)

/-- model state + per broker the notifications held by its (lagging) watch stream, as indices into
`State.hist` (every write of the snapshot key notifies every broker, the writer included) -/
structure DS where
  s : State
  held : List (List Nat)

def DS.init : DS := { s := KafVerif.Snapshot.init (fun _ => []), held := List.replicate 3 [] }

/-- after a step: if the snapshot key was written, every watch stream holds one more notification -/
def noteWrite (before : State) (d : DS) : DS :=
  if d.s.hist.length > before.hist.length then
    { d with held := d.held.map fun q => q ++ [d.s.hist.length - 1] }
  else d

def stepD (d : DS) (st : Step) : DS × Res :=
  let (s', r) := step merge d.s st
  (noteWrite d.s { d with s := s' }, r)

/-- deliver the oldest held notification of `b`; `none` if nothing is held -/
def deliverD (d : DS) (b : Nat) : Option DS :=
  match d.held.getD b [] with
  | [] => none
  | r :: rest => some (stepD { d with held := d.held.set b rest } (.deliver b r)).1

def parseCrd (s : String) : Option Snap :=
  if s = "-" then some [] else
  (s.splitOn ",").mapM fun e => match e.splitOn ":" with
    | [t, n] => do pure ((← t.toNat?), (← n.toNat?))
    | _ => none

def parseFail (w : String) : Option Fail :=
  if !w.startsWith "fail=" then none else
  let spec := (w.drop 5).toString
  match spec.splitOn ":" with
  | [g] => if g.startsWith "get" then (g.drop 3).toString.toNat?.map .get else none
  | [x, m] =>
    let applied? : Option Bool := if m = "pre" then some false else if m = "post" then some true else none
    if x = "del0" then applied?.map fun _ => .del
    else if x.startsWith "txn" then do pure (.txn (← (x.drop 3).toString.toNat?) (← applied?))
    else none
  | _ => none

/-- splits a trailing `fail=<spec>` token off a call group -/
def splitFail (ws : List String) : Option (List String × Fail) :=
  match ws.reverse with
  | last :: restRev =>
    if last.startsWith "fail=" then (parseFail last).map fun f => (restRev.reverse, f) else some (ws, .none)
  | [] => some (ws, .none)

def parseCall (ws : List String) : Option Call := do
  let (ws, f) ← splitFail ws
  match ws with
  | ["op", crd] => (parseCrd crd).map .operator
  | [b, "create", t, n] => pure (.broker (← b.toNat?) (.create (← t.toNat?) (← n.toInt?)) f)
  | [b, "grow", t, n] => pure (.broker (← b.toNat?) (.grow (← t.toNat?) (← n.toInt?)) f)
  | [b, "delete", t] => pure (.broker (← b.toNat?) (.delete (← t.toNat?)) f)
  | ["late", b] => pure (.late (← b.toNat?))
  | _ => none

def splitWith (ws : List String) : List (List String) :=
  let rec go (cur : List String) (acc : List (List String)) : List String → List (List String)
    | [] => (cur.reverse :: acc).reverse
    | w :: r => if w = "with" then go [] (cur.reverse :: acc) r else go (w :: cur) acc r
  go [] [] ws

def isDelete : TOp → Bool
  | .delete _ => true
  | _ => false

/-- the first attempt's read + mutation, with the faults that hit before any write -/
def beginF (d : DS) (b : Nat) (op : TOp) : Fail → DS × Res
  | .get 0 => stepD d (.getFail b)
  | .del => if isDelete op then stepD d (.beginFail b op) else stepD d (.begin b op)
  | _ => stepD d (.begin b op)

/-- finish a pending update: the txn, and after a conflict the retry's txn (≤ 5 attempts); `i` counts
the txns of this call, so that the injected error hits the right one. -/
def finishF (d : DS) (b : Nat) (f : Fail) : Nat → Nat → DS × Res
  | _, 0 => (d, .pending)
  | i, fuel + 1 =>
    let conflict := match (d.s.brokers b).pend with
      | some (r, _, _) => r != d.s.rev
      | none => false
    let failNow : Option Bool := match f with
      | .txn k applied => if k = i then some applied else none
      | .get k => if conflict && k = i + 1 && i + 1 < maxAttempts then some false else none
      | _ => none
    match failNow with
    | some applied => stepD d (.commitFail b applied)
    | none =>
      let (d', r) := stepD d (.commit b)
      if r = .pending && (d'.s.brokers b).pend.isSome then finishF d' b f (i + 1) fuel else (d', r)

def finishOp (d : DS) : Nat → DS × Res
  | 0 => (d, .pending)
  | fuel + 1 =>
    let (d', r) := stepD d .opTxn
    if r = .pending && d'.s.opPend.isSome then finishOp d' fuel else (d', r)

def publish (d : DS) (crd : Snap) : DS × Res :=
  let (d1, _) := stepD d (.opGet crd)
  finishOp d1 6

/-- a complete call with nothing in between; a `late` delivery to a broker that is inside its own
call only takes effect after that call (the watcher waits for `persistMu`): reported through `deferred` -/
def callNow (d : DS) (outer : Nat) : Call → DS × String × Bool
  | .broker b op f =>
    let (d1, r) := beginF d b op f
    if r = .pending then let (d2, r2) := finishF d1 b f 0 6; (d2, resName r2, false) else (d1, resName r, false)
  | .operator crd => let (d1, r) := publish d crd; (d1, resName r, false)
  | .late b =>
    match d.held.getD b [] with
    | [] => (d, "none", false)
    | r :: rest =>
      let d0 := { d with held := d.held.set b rest }
      if b = outer then (d0, "late", true) else ((stepD d0 (.deliver b r)).1, "late", false)

def drain (d : DS) (b : Nat) : Nat → DS
  | 0 => d
  | fuel + 1 => match deliverD d b with
    | some d' => drain d' b fuel
    | none => d

def stepLine (d : DS) (ws : List String) : DS × String :=
  match ws with
  | ["reset"] => (DS.init, "reset " ++ dumpAll DS.init.s)
  | "call" :: rest =>
    match (splitWith rest).mapM parseCall with
    | some (.broker b op f :: inj) =>
      if b ≥ nBrokers || inj.any (fun c => match c with
          | .broker b' _ _ => b' == b || b' ≥ nBrokers | .late b' => b' ≥ nBrokers | _ => false) then (d, "bad-op") else
      let (d1, r) := beginF d b op f
      -- the injected calls run at the call's first Delete / first snapshot write: after a mutation that succeeded locally
      let reached := r == .pending || (r == .err && (match f with | .del => true | _ => false))
      if !reached then (d1, s!"call res={resName r} inj=- " ++ dumpAll d1.s) else
      let (d2, rs, deferred) := inj.foldl (fun (acc : DS × List String × Bool) c =>
        let (d', r', df) := callNow acc.1 b c; (d', acc.2.1 ++ [r'], acc.2.2 || df)) (d1, [], false)
      let (d3, r3) := if r == .pending then finishF d2 b f 0 6 else (d2, r)
      -- deliveries that had to wait for the call: the watcher now re-reads the key
      let d4 := if deferred then (stepD d3 (.watch b)).1 else d3
      let injs := if rs.isEmpty then "-" else joinWith "," rs
      (d4, s!"call res={resName r3} inj={injs} " ++ dumpAll d4.s)
    | _ => (d, "bad-op")
  | ["watch", b] => match b.toNat? with
    | some b => if b ≥ nBrokers then (d, "bad-op") else
      let d' := drain d b 10000; (d', "watch " ++ dumpAll d'.s)
    | none => (d, "bad-op")
  | ["late", b] => match b.toNat? with
    | some b => if b ≥ nBrokers then (d, "bad-op") else
      match deliverD d b with
      | some d' => (d', "late delivered " ++ dumpAll d'.s)
      | none => (d, "late none " ++ dumpAll d.s)
    | none => (d, "bad-op")
  | "publish" :: crd :: rest =>
    -- `publish <crd> with <call> …`: the calls run between the operator's Get and its first Txn
    let groups : Option (List Call) := match rest with
      | [] => some []
      | "with" :: r => (splitWith r).mapM parseCall
      | _ => none
    match parseCrd crd, groups with
    | some crd, some inj =>
      if inj.any (fun c => match c with
          | .broker b' _ _ => b' ≥ nBrokers | .late b' => b' ≥ nBrokers | .operator _ => true) then (d, "bad-op") else
      let (d1, _) := stepD d (.opGet crd)
      let (d2, rs) := inj.foldl (fun (acc : DS × List String) c =>
        let (d', r', _) := callNow acc.1 nBrokers c; (d', acc.2 ++ [r'])) (d1, [])
      let (d3, r) := finishOp d2 6
      let injs := if rs.isEmpty then "-" else joinWith "," rs
      (d3, s!"publish res={resName r} inj={injs} " ++ dumpAll d3.s)
    | _, _ => (d, "bad-op")
  | ["live"] => (d, "live ok")
  | ["stress", _, _] => (d, "stress ok")
  | _ => (d, "bad-op")

def main : IO Unit := runLines DS.init stepLine
