import KafVerif.Model.Snapshot
import KafVerif.Prelude.Driver
open KafVerif KafVerif.Snapshot

def nBrokers : Nat := 3

def dumpSnap (s : Snap) : String :=
  if s.isEmpty then "-" else joinWith "," (s.map fun e => s!"{e.1}:{e.2}")

def dumpAll (s : State) : String :=
  let e := match s.etcd with | none => "none" | some x => dumpSnap x
  s!"etcd={e} " ++ joinWith " " ((List.range nBrokers).map fun b => s!"b{b}={dumpSnap (s.brokers b).loc}")

def resName : Res → String
  | .ok => "ok" | .exists_ => "exists" | .invalid => "invalid" | .unknown => "unknown"
  | .conflict => "conflict" | .pending => "pending"

inductive Call where
  | broker (b : Nat) (op : TOp)
  | operator (crd : Snap)
  /-- hand broker `b` the oldest notification its watch stream is holding -/
  | late (b : Nat)

/-- model state + per broker the notifications held by its (lagging) watch stream, as indices into
`State.hist` (every write of the snapshot key notifies every broker, the writer included) -/
structure DS where
  s : State
  held : List (List Nat)

def DS.init : DS := { s := KafVerif.Snapshot.init (fun _ => []), held := List.replicate 3 [] }

/-- after a step: if the snapshot key was written, every watch stream holds one more notification -/
def noteWrite (before : State) (d : DS) : DS :=
  if d.s.hist.length > before.hist.length then
    { d with held := d.held.map fun q => q ++ [d.s.hist.length - 1] }
  else d

def stepD (d : DS) (st : Step) : DS × Res :=
  let (s', r) := step merge d.s st
  (noteWrite d.s { d with s := s' }, r)

/-- deliver the oldest held notification of `b`; `none` if nothing is held -/
def deliverD (d : DS) (b : Nat) : Option DS :=
  match d.held.getD b [] with
  | [] => none
  | r :: rest => some (stepD { d with held := d.held.set b rest } (.deliver b r)).1

def parseCrd (s : String) : Option Snap :=
  if s = "-" then some [] else
  (s.splitOn ",").mapM fun e => match e.splitOn ":" with
    | [t, n] => do pure ((← t.toNat?), (← n.toNat?))
    | _ => none

def parseCall : List String → Option Call
  | ["op", crd] => (parseCrd crd).map .operator
  | [b, "create", t, n] => do pure (.broker (← b.toNat?) (.create (← t.toNat?) (← n.toInt?)))
  | [b, "grow", t, n] => do pure (.broker (← b.toNat?) (.grow (← t.toNat?) (← n.toInt?)))
  | [b, "delete", t] => do pure (.broker (← b.toNat?) (.delete (← t.toNat?)))
  | ["late", b] => do pure (.late (← b.toNat?))
  | _ => none

def splitWith (ws : List String) : List (List String) :=
  let rec go (cur : List String) (acc : List (List String)) : List String → List (List String)
    | [] => (cur.reverse :: acc).reverse
    | w :: r => if w = "with" then go [] (cur.reverse :: acc) r else go (w :: cur) acc r
  go [] [] ws

/-- finish a pending update: the txn, and after a conflict the retry's txn (≤ 5 attempts). -/
def finish (d : DS) (b : Nat) : Nat → DS × Res
  | 0 => (d, .pending)
  | fuel + 1 =>
    let (d', r) := stepD d (.commit b)
    if r = .pending && (d'.s.brokers b).pend.isSome then finish d' b fuel else (d', r)

def publish (d : DS) (crd : Snap) : DS × Res :=
  let (d1, _) := stepD d (.opGet crd)
  stepD d1 .opTxn

/-- a complete call with nothing in between; a `late` delivery to a broker that is inside its own
call only takes effect after that call (the watcher waits for `persistMu`): reported through `deferred` -/
def callNow (d : DS) (outer : Nat) : Call → DS × String × Bool
  | .broker b op =>
    let (d1, r) := stepD d (.begin b op)
    if r = .pending then let (d2, r2) := finish d1 b 6; (d2, resName r2, false) else (d1, resName r, false)
  | .operator crd => let (d1, r) := publish d crd; (d1, resName r, false)
  | .late b =>
    match d.held.getD b [] with
    | [] => (d, "none", false)
    | r :: rest =>
      let d0 := { d with held := d.held.set b rest }
      if b = outer then (d0, "late", true) else ((stepD d0 (.deliver b r)).1, "late", false)

def drain (d : DS) (b : Nat) : Nat → DS
  | 0 => d
  | fuel + 1 => match deliverD d b with
    | some d' => drain d' b fuel
    | none => d

def stepLine (d : DS) (ws : List String) : DS × String :=
  match ws with
  | ["reset"] => (DS.init, "reset " ++ dumpAll DS.init.s)
  | "call" :: rest =>
    match (splitWith rest).mapM parseCall with
    | some (.broker b op :: inj) =>
      if b ≥ nBrokers || inj.any (fun c => match c with
          | .broker b' _ => b' == b || b' ≥ nBrokers | .late b' => b' ≥ nBrokers | _ => false) then (d, "bad-op") else
      let (d1, r) := stepD d (.begin b op)
      if r != .pending then (d1, s!"call res={resName r} inj=- " ++ dumpAll d1.s) else
      let (d2, rs, deferred) := inj.foldl (fun (acc : DS × List String × Bool) c =>
        let (d', r', df) := callNow acc.1 b c; (d', acc.2.1 ++ [r'], acc.2.2 || df)) (d1, [], false)
      let (d3, r3) := finish d2 b 6
      -- deliveries that had to wait for the call: the watcher now re-reads the key
      let d4 := if deferred then (stepD d3 (.watch b)).1 else d3
      let injs := if rs.isEmpty then "-" else joinWith "," rs
      (d4, s!"call res={resName r3} inj={injs} " ++ dumpAll d4.s)
    | _ => (d, "bad-op")
  | ["watch", b] => match b.toNat? with
    | some b => if b ≥ nBrokers then (d, "bad-op") else
      let d' := drain d b 10000; (d', "watch " ++ dumpAll d'.s)
    | none => (d, "bad-op")
  | ["late", b] => match b.toNat? with
    | some b => if b ≥ nBrokers then (d, "bad-op") else
      match deliverD d b with
      | some d' => (d', "late delivered " ++ dumpAll d'.s)
      | none => (d, "late none " ++ dumpAll d.s)
    | none => (d, "bad-op")
  | ["publish", crd] => match parseCrd crd with
    | some crd => let (d', r) := publish d crd; (d', s!"publish res={resName r} " ++ dumpAll d'.s)
    | none => (d, "bad-op")
  | ["live"] => (d, "live ok")
  | ["stress", _, _] => (d, "stress ok")
  | _ => (d, "bad-op")

def main : IO Unit := runLines DS.init stepLine
