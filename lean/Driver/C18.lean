import KafVerif.Model.Lease
import KafVerif.Prelude.Driver
open KafVerif KafVerif.Lease

/-! Line-protocol driver for the lease-manager model (C18).  One op per line, one canonical
observation line per op — same format as harness/C18/root/cmd/verif_c18/main.go. -/

structure D where
  var : Variant
  nb : Nat
  nr : Nat
  s : State

def resStr : Option Res → String
  | some .ok => "ok"
  | some .notOwner => "notowner"
  | some .shuttingDown => "shutdown"
  | some .err => "err"
  | none => "-"

def obs (d : D) : String :=
  let own := (List.range d.nb).map fun b =>
    s!"b{b}:" ++ joinWith "," (((List.range d.nr).filter fun r => owns d.s b r).map toString)
  let kv := (List.range d.nr).map fun r =>
    match d.s.kv r with
    | some k => s!"{r}:b{k.owner}@L{k.lease}"
    | none => s!"{r}:-"
  let cur := (List.range d.nr).map fun r =>
    match d.s.kv r with
    | some k => s!"{r}:b{k.owner}"
    | none => s!"{r}:-"
  let live := ((List.range d.s.nextLease).filter fun l => d.s.live l).map fun l => s!"L{l}"
  let closed := ((List.range d.nb).filter fun b => (d.s.mgr b).closed).map fun b => s!"b{b}"
  let sess := (List.range d.nb).map fun b =>
    match (d.s.mgr b).session with
    | some l => s!"b{b}:L{l}"
    | none => s!"b{b}:-"
  s!"own={joinWith "|" own} kv={joinWith "," kv} cur={joinWith "," cur} live={joinWith "," live} closed={joinWith "," closed} sess={joinWith "," sess} dels={d.s.dels.length} revokes={d.s.revokes.length}"

def apply (d : D) (op : Op) : D × String :=
  if enabledB d.nb d.s op then
    let (s', r) := step d.var d.s op
    let d' := { d with s := s' }
    (d', resStr r ++ " " ++ obs d')
  else (d, "disabled " ++ obs d)

def nat2 (a b : String) (f : Nat → Nat → D × String) (d : D) : D × String :=
  match a.toNat?, b.toNat? with
  | some x, some y => f x y
  | _, _ => (d, "bad-op")

def nat1 (a : String) (f : Nat → D × String) (d : D) : D × String :=
  match a.toNat? with
  | some x => f x
  | none => (d, "bad-op")

def stepLine (d : D) (ws : List String) : D × String :=
  match ws with
  | ["reset", v, nb, nr] =>
    let var := if v = "uncond" then Variant.uncond else if v = "byvalue" then Variant.byValue else Variant.byRev
    match nb.toNat?, nr.toNat? with
    | some nb, some nr =>
      let d' : D := { var := var, nb := nb, nr := nr, s := init }
      (d', "reset " ++ obs d')
    | _, _ => (d, "bad-op")
  | ["acquire", b, r] => nat2 b r (fun b r =>
      -- the harness starts the call and lets it run to its first etcd operation: entry checks + lock 1
      let (s1, r1) := step d.var d.s (.acquire b r)
      match r1, s1.acq b r with
      | none, some .g1 =>
        let (s2, r2) := step d.var s1 (.step b r)
        let d' := { d with s := s2 }
        (d', resStr r2 ++ " " ++ obs d')
      | _, _ =>
        let d' := { d with s := s1 }
        (d', resStr r1 ++ " " ++ obs d')) d
  | ["step", b, r] => nat2 b r (fun b r => apply d (.step b r)) d
  | ["abort", b, r] => nat2 b r (fun b r => apply d (.abort b r)) d
  | ["release", b, r] => nat2 b r (fun b r => apply d (.release b r)) d
  | ["del", i] => nat1 i (fun i => apply d (.del i)) d
  | ["dropdel", i] => nat1 i (fun i => apply d (.dropDel i)) d
  | ["releaseall", b] => nat1 b (fun b => apply d (.releaseAll b)) d
  | ["revoke", i] => nat1 i (fun i => apply d (.revoke i)) d
  | ["droprevoke", i] => nat1 i (fun i => apply d (.dropRevoke i)) d
  | ["lost", b] => nat1 b (fun b => apply d (.sessionLost b)) d
  | ["expire", l] => nat1 l (fun l => apply d (.expire l)) d
  | ["crash", b] => nat1 b (fun b => apply d (.crash b)) d
  | _ => (d, "bad-op")

def main : IO Unit := runLines ({ var := .byRev, nb := 3, nr := 2, s := init } : D) stepLine
