import KafVerif.Model.SqlParser
import KafVerif.Prelude.Driver
/-! Line-protocol driver for the SQL parser model (C35): `p <hex>` -> canonical parse result.
`o <hex>` runs the pre-fix lowering (`parseOld`) and prints only ok/err/panic.
`l <hex>` prints `lower <hex of asciiLower s>` (Go: lowerASCII through VerifLowerASCII). -/
open KafVerif KafVerif.SqlParser

def hxList (xs : List Bytes) : String := if xs.isEmpty then "-" else joinWith "," (xs.map toHex)
def optI (o : Option Int) : String := match o with | some v => toString v | none => "-"
def b01 (b : Bool) : String := if b then "1" else "0"
def jx (e : JoinExpr) : String := s!"{e.kind}:{toHex e.source}:{e.side}:{toHex e.path}"

def showSel (q : Sel) : String :=
  let jon := match q.joinOn with | some (l, r) => jx l ++ "/" ++ jx r | none => "-"
  s!"topic={toHex q.topic} alias={toHex q.alias} jt={toHex q.joinTopic} ja={toHex q.joinAlias} jtype={q.joinType} jon={jon} cols={hxList q.cols} group={hxList q.groupBy} order={toHex q.orderBy} desc={b01 q.orderDesc} limit={toHex q.limit} part={optI q.partition} omin={optI q.offMin} omax={optI q.offMax} within={toHex q.within} last={toHex q.last} tail={toHex q.tail} scan={b01 q.scanFull}"

def showQ : GoResult Q → String
  | .panic => "panic"
  | .err => "err"
  | .ok .showTopics => "ok show_topics"
  | .ok (.showPartitions t) => "ok show_partitions " ++ toHex t
  | .ok (.describe t) => "ok describe " ++ toHex t
  | .ok (.select s) => "ok select " ++ showSel s
  | .ok (.explain s) => "ok explain " ++ showSel s

def stepLine (u : Unit) (ws : List String) : Unit × String :=
  match ws with
  | ["p", hx] => match fromHex hx with
    | some q => (u, showQ (parse q))
    | none => (u, "bad-op")
  | ["o", hx] => match fromHex hx with
    | some q => (u, (parseOld q).tag)
    | none => (u, "bad-op")
  | ["l", hx] => match fromHex hx with
    | some q => (u, "lower " ++ toHex (asciiLower q))
    | none => (u, "bad-op")
  | _ => (u, "bad-op")

def main : IO Unit := runLines () stepLine
