import KafVerif.Model.KafkaPitrDriver
open KafVerif KafVerif.Kafka

/-- `lean --run Driver/C08.lean`: `restore` ops of the point-in-time restore model (restore time in milliseconds or, with
the suffix `ns`, in nanoseconds), plus the shared byte-format ops -/
def main (args : List String) : IO Unit := do
  let tab := crcTable
  let d : DriverCfg := ⟨args.headD "root", crc32cWith tab, goMakeLim AllocMax⟩
  runLines () fun _ ws => ((), pitrStep d ws)
