import KafVerif.Model.KafkaDriver
open KafVerif KafVerif.Kafka

/-- `lean --run Driver/C08.lean`: `restore` ops of the point-in-time restore model (plus the shared byte-format ops) -/
def main (args : List String) : IO Unit := do
  let tab := crcTable
  let d : DriverCfg := ⟨args.headD "root", crc32cWith tab, goMakeLim AllocMax⟩
  runLines () fun _ ws => ((), kafkaStep d ws)
