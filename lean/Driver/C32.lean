import KafVerif.Model.LfsHttp
import KafVerif.Prelude.Driver
open KafVerif KafVerif.LfsHttp

/-! C32 driver.  Ops:
`new <maxBlob> <defaultAlg>`
`produce <len> <fill> <alg|-> <absent|right|wrong> <none|put|create|part<k>|complete|delete>[.once][.before] <broker>`
`par <part:n:len:fill:s3Fails | abort> …`   requests of the session that OVERLAP; the session lock serialises them in arrival order
`init <size> <alg|-> <absent|right|wrong> <createFails> <plan>`      `part <n> <len> <fill> <s3Fails>`
`complete <n:ok|bad|empty,…|-> <s3Fails> <broker>`      `abort`      `expire`
`lifecycle-abort`   S3 drops the in-flight multipart upload behind the proxy's back (the id becomes unknown: NoSuchUpload)
`par … abort complete/<list>/<s3Fails>/<broker>`   a completion that looked the session up before the abort deleted it
broker = ack | code:<n> | nopartition | garbage | close | refuse -/

def parseAlg (dflt : String) (s : String) : Alg :=
  let s := if s == "-" then dflt else s
  if s == "sha256" then .sha256 else if s == "md5" then .md5 else if s == "crc32" then .crc32
  else if s == "none" then .none else .invalid

def parseCk (s : String) : Ck := if s == "right" then .right else if s == "wrong" then .wrong else .absent

def parseBroker (s : String) : Broker :=
  if s == "ack" then .ack else if s == "nopartition" then .noPartition else if s == "garbage" then .garbage
  else if s == "close" then .close else if s == "refuse" then .refuse
  else match s.splitOn ":" with
    | ["code", n] => .code (n.toInt?.getD 0)
    | _ => .ack

/-- `.once` (transient) and `.before` (fails before S3 read the body) do not matter to the code as it is: one attempt per call -/
def parseFault (s0 : String) : S3Fault :=
  let s := (s0.splitOn ".").headD ""
  if s == "put" then .put else if s == "create" then .create
  else if s == "complete" then .complete else if s == "delete" then .delete
  else if s.startsWith "part" then .part ((s.drop 4).toString.toNat?.getD 0)
  else .none

def parseList (s : String) : List (Nat × Etag) :=
  if s == "-" then [] else
  (s.splitOn ",").filterMap fun p => match p.splitOn ":" with
    | [n, e] => n.toNat?.map fun n => (n, if e == "ok" then Etag.ok else if e == "bad" then Etag.bad else Etag.empty)
    | _ => none

def parseParReq (w : String) : Option Op :=
  match w.splitOn "/" with
  | ["complete", list, fails, broker] => some (.complete (parseList list) (fails == "1") (parseBroker broker))
  | _ =>
  match w.splitOn ":" with
  | ["part", n, len, fill, fails] => some (.part (n.toNat?.getD 0) ⟨fill.toNat?.getD 0, len.toNat?.getD 0⟩ (fails == "1"))
  | ["abort"] => some .abort
  | _ => none

/-- overlapping requests of one session (`par`).  A request looks the session up on arrival.  Once a request of the
`par` is held inside S3 under the session lock (`gated`: an abort of an existing session, a part upload that passed
its checks), every later request has looked the session up BEFORE any of them takes effect and parks on the mutex:
they run in arrival order, on the session object they hold (`onHeld`: orphaned if an abort / a successful completion
deleted it meanwhile).  While nothing is held, a request is answered before the next one arrives (`step`). -/
def parRun (gated : Bool) (x : XSt) : List Op → XSt × List Out × Option Out
  | [] => (x, [], none)
  | o :: rest =>
    let x0 : XSt := if gated then x else ⟨x.st, x.st.sess⟩
    let g1 := gated || match o, x0.held with
      | .abort, some _ => true
      | .part n c _, some s => (partCheck s n c).isNone
      | _, _ => false
    let (x1, out) : XSt × Out := match o with
      | .complete l f b => let r := onHeld x0.held x0.st (fun st => doComplete st l f b); (⟨r.1, x0.held⟩, r.2)
      | .abort => let r := onHeld x0.held x0.st doAbort; (⟨r.1, x0.held⟩, r.2)
      | o => let r := xstep x0 (.op o); (r.1, r.2)
    let (x2, outs, c) := parRun g1 x1 rest
    (x2, out :: outs, match o with | .complete .. => some out | _ => c)

def showObj : Option (List Chunk) → String
  | none => "none"
  | some d => toString (dlen d)

def showEnv (env : Option Envelope) (obj : Option (List Chunk)) : String :=
  match env with
  | none => "env=none sha_is_obj=na"
  | some e => s!"env={e.size} sha_is_obj={obj == some e.shaOf}"

def showSess : Option Sess → String
  | none => "sess=none"
  | some s => s!"sess={s.nextPart}/{s.total}"

def sessLine (name : String) (r : St × Out) : String :=
  s!"{name} status={r.2.status} {showEnv r.2.env r.1.object} produced={r.2.produced} {showSess r.1.sess} obj={showObj r.1.object}"

def stepLine (σ : String × St) (ws : List String) : (String × St) × String :=
  let (dflt, st) := σ
  match ws with
  | ["new", mb, alg] => ((alg, St.init (mb.toInt?.getD 0)), "new")
  | ["produce", len, fill, alg, ck, fault, broker] =>
    let n := len.toNat?.getD 0
    let body : List Chunk := if n == 0 then [] else [⟨fill.toNat?.getD 0, n⟩]
    let o := produce st.maxBlob (parseAlg dflt alg) (parseCk ck) body (parseFault fault) (parseBroker broker)
    (σ, s!"produce status={o.status} {showEnv o.env o.object} produced={o.produced} obj={showObj o.object}")
  | ["init", size, alg, ck, cf, _plan] =>
    let r := step st (.init (size.toInt?.getD 0) (parseAlg dflt alg) (parseCk ck) (cf == "1"))
    ((dflt, r.1), sessLine "init" r)
  | ["part", n, len, fill, fails] =>
    let r := step st (.part (n.toNat?.getD 0) ⟨fill.toNat?.getD 0, len.toNat?.getD 0⟩ (fails == "1"))
    ((dflt, r.1), sessLine "part" r)
  | ["complete", list, fails, broker] =>
    let r := step st (.complete (parseList list) (fails == "1") (parseBroker broker))
    ((dflt, r.1), sessLine "complete" r)
  | "par" :: reqs =>
    let (x, outs, c) := parRun false ⟨st, none⟩ (reqs.filterMap parseParReq)
    let sts := ",".intercalate (outs.map fun o => toString o.status)
    let co : Out := c.getD ⟨0, none, false⟩
    ((dflt, x.st), s!"par status={sts} {showEnv co.env x.st.object} produced={co.produced} {showSess x.st.sess} obj={showObj x.st.object}")
  | ["lifecycle-abort"] => let r := doLifecycleAbort st; ((dflt, r.1), sessLine "lifecycle-abort" r)
  | ["abort"] => let r := step st .abort; ((dflt, r.1), sessLine "abort" r)
  | ["expire"] => let r := step st .expire; ((dflt, r.1), sessLine "expire" r)
  | _ => (σ, "bad-op")

def main : IO Unit := runLines ("sha256", St.init 0) stepLine
