import KafVerif.Model.StorageLogEtcd
import KafVerif.Prelude.Driver
/-! Line-protocol driver of the `StorageLogEtcd` model (EtcdStore.UpdateOffsets under concurrent callers). -/
open KafVerif KafVerif.StorageLogEtcd

structure D where
  v : Variant
  s : State
  nc : Nat

def showPc : CPc → String
  | .idle => "idle"
  | .get _ => "get"
  | .txn _ _ => "txn"
  | .done => "done"
  | .err => "err"

def showState (d : D) : String :=
  let pcs := if d.nc = 0 then "-" else joinWith "," ((List.range d.nc).map fun i => s!"{i}:{showPc (d.s.pcs i)}")
  let val := match d.s.kv with | some p => toString p.1 | none => "-"
  s!"pcs={pcs} val={val}"

def exec (d : D) (e : Ev) (i : Nat) : D × String :=
  match step d.v d.s e with
  | none => (d, "disabled " ++ showState d)
  | some s' => let d' := { d with s := s', nc := max d.nc (i + 1) }; (d', "ok " ++ showState d')

def parseOk : String → Option Bool
  | "ok" => some true
  | "fail" => some false
  | _ => none

def stepLine (d : D) (ws : List String) : D × String :=
  match ws with
  | ["new", var] =>
    let d' : D := { v := if var = "once" then .once else .fixed, s := init, nc := 0 }
    (d', "ok " ++ showState d')
  | ["call", i, last] =>
    match i.toNat?, last.toNat? with
    | some i, some last => exec d (.call i (last + 1)) i
    | _, _ => (d, "bad-op")
  | ["get", i, o] =>
    match i.toNat?, parseOk o with
    | some i, some o => exec d (.get i o) i
    | _, _ => (d, "bad-op")
  | ["txn", i, o] =>
    match i.toNat?, parseOk o with
    | some i, some o => exec d (.txn i o) i
    | _, _ => (d, "bad-op")
  | _ => (d, "bad-op")

def main : IO Unit := runLines ({ v := .fixed, s := init, nc := 0 } : D) stepLine
